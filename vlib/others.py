"""Checks decided by the engines kx, ax, px, cx and the configuration matrix mx."""
import fcntl, glob, json, os, shutil, subprocess, time
from common import *
import hxrun, props


def _agg():
    return {"states": 0, "transitions": 0, "executions": 0, "evaluations": 0, "distinct_nontrivial": 0, "counters": {}, "samples": [], "legs": [], "violations": [],
            "collateral": {}, "known_hits": {}, "capped": False, "outcomes": {}, "rule": "", "explanation": ""}


def _json_out(cmd, out_path, timeout=7200, env=None):
    if os.path.exists(out_path):
        os.remove(out_path)
    rc, out, err = run(cmd, timeout=timeout, env=env)
    if not os.path.exists(out_path):
        raise MachineryError("engine produced no result (rc=%s): %s\n%s" % (rc, " ".join(cmd[:4]), (err or "")[-1500:]))
    return json.load(open(out_path))


def _guarded(agg, fn, *a, **k):
    """Runs one leg; a machinery failure is remembered instead of raised, so that it cannot take the verdicts of the
    other legs with it. _settle() re-raises the first one if, in the end, no leg found a violation."""
    try:
        return fn(*a, **k)
    except MachineryError as e:
        agg.setdefault("leg_failures", []).append(str(e))
        log("a leg failed for machinery reasons: %s" % str(e)[:300])
        return None


def _settle(agg):
    if agg.get("leg_failures") and not agg["violations"]:
        raise MachineryError(agg["leg_failures"][0])


def _workfile(name):
    d = os.path.join(WORK, "out")
    os.makedirs(d, exist_ok=True)
    return os.path.join(d, "%s.%d.json" % (name, os.getpid()))


# ------------------------------------------------------------------------------------------------
# kx
# ------------------------------------------------------------------------------------------------

def _kx_crash(agg, binary, which, mode, profile, features, prop, rc, err, beacon, san, env=None):
    """The sweep process died. Candidates = the input every worker thread was evaluating (beacon slots); each is replayed
    twice in isolation; a candidate that kills the process both times is a verdict, otherwise the crash is a machinery error."""
    import struct
    data = open(beacon, "rb").read() if os.path.exists(beacon) else b""
    cands = []
    for i in range(0, len(data) - 31, 32):
        kind, st, key, gen, world = struct.unpack("<5I", data[i:i + 20])
        if kind in (3, 14) and (kind, st, key, gen, world) not in cands:
            cands.append((kind, st, key, gen, world))
    confirmed = []
    for kind, st, key, gen, world in cands:
        cmd = [binary, "replay-c03", str(st), str(key), str(gen), str(world)] if kind == 3 else [binary, "replay-c14", str(key), str(gen)]
        rcs = [run(cmd, timeout=300, env=env)[0] for _ in range(2)]
        if all(r not in (0, 1) for r in rcs):
            confirmed.append((kind, st, key, gen, world, rcs[0]))
    if not confirmed:
        raise MachineryError("kx %s (%s, %s) died with rc=%s and no candidate input reproduces the crash in isolation: %s" % (which, mode, profile, rc, (err or "")[-800:]))
    for kind, st, key, gen, world, r in confirmed[:3]:
        names = ["empty(cap 4)", "capacity 0", "full(cap 4)", "mixed(free slots with matching generations)"]
        agg["violations"].append({"prop": prop, "oracle": "process-crash:rc=%s" % r, "engine": "kx", "history": None, "profile": profile, "features": list(features),
                                  "msg": "the sweep process died (rc=%s%s) while pushing the forged value (key %#x, generation %d) through the safe API in state '%s'; the same input kills the process twice in isolation. stderr tail: %s"
                                         % (r, ", sanitizer" if san else "", key, gen, names[st] if kind == 3 else "-", (err or "").strip()[-300:]),
                                  "extra": {"sweep": "c03" if kind == 3 else "c14", "profile": profile, "features": list(features), "sanitizer": san, "input": {"state": names[st] if kind == 3 else "", "key": key, "gen": gen, "world_level": world}}})
    return {"evaluations": 0, "config": "crashed", "detail": {"samples": []}, "violations": [], "wall_s": 0.0, "crashed": True}


def kx_leg(agg, which, mode, profile, prop, features=(), san=None):
    if san == "asan":
        binary = build("kx", profile, features, toolchain="nightly", rustflags_extra="-Zsanitizer=address", target_sub="asan", extra_args=("--target=x86_64-unknown-linux-gnu",))
    else:
        binary = build("kx", profile, features)
    outp = _workfile("kx-%s-%s%s" % (which, profile, "-" + san if san else ""))
    beacon = outp + ".beacon"
    env = env_base()
    if san == "asan":
        env["ASAN_OPTIONS"] = "exitcode=77:detect_leaks=0:abort_on_error=0"
    if os.path.exists(outp):
        os.remove(outp)
    rc, out, err = run([binary, which, "--mode", mode, "--out", outp, "--threads", str(NCPU), "--beacon", beacon], timeout=7200, env=env)
    if not os.path.exists(outp):
        if rc in (0, 1, 2):
            raise MachineryError("engine produced no result (rc=%s): kx %s\n%s" % (rc, which, (err or "")[-1500:]))
        o = _kx_crash(agg, binary, which, mode, profile, features, prop, rc, err, beacon, san, env=env)
    else:
        o = json.load(open(outp))
    agg["evaluations"] += o["evaluations"]
    agg["legs"].append({"engine": "kx", "sweep": which, "mode": mode, "config": "%s[%s] %s" % (profile, ",".join(features), o["config"]), "evaluations": o["evaluations"], "detail": {k: v for k, v in o["detail"].items() if k != "samples"}, "wall_s": round(o["wall_s"], 2)})
    for s in o["detail"].get("samples", [])[:3]:
        agg["samples"].append(dict(s, engine="kx"))
    if o.get("known_f6_hits"):
        agg["known_hits"]["C03:typed-handle-wrong-archetype-byte:from_any_unchecked"] = agg["known_hits"].get("C03:typed-handle-wrong-archetype-byte:from_any_unchecked", 0) + o["known_f6_hits"]
    for v in o["violations"]:
        rec = dict(v, engine="kx", extra={"sweep": which, "profile": profile, "features": list(features), "input": v["input"]}, history=None, profile=profile, features=list(features))
        if v["prop"] == prop:
            agg["violations"].append(rec)
        else:
            k = "%s:%s" % (v["prop"], v["oracle"])
            agg["collateral"][k] = agg["collateral"].get(k, 0) + 1
    return o


def wx_leg(agg, profile, prop, features=()):
    """The 256-archetype world: every archetype index x populations {single, first+last, every, none}. prop=None counts every tag."""
    binary = build("wx", profile, features)
    o = _json_out([binary, "run", "--out", _workfile("wx-%s-%s" % (profile, "-".join(features) or "default"))], _workfile("wx-%s-%s" % (profile, "-".join(features) or "default")))
    agg["evaluations"] = agg.get("evaluations", 0) + o["evaluations"]
    agg["executions"] = agg.get("executions", 0) + o["evaluations"]
    agg["legs"].append({"engine": "wx", "world": "256 archetypes, implicit ids 0..=255", "config": "%s[%s] %s" % (profile, ",".join(features), o["config"]), "evaluations": o["evaluations"], "detail": {k: v for k, v in o["detail"].items() if k != "samples"}, "wall_s": round(o["wall_s"], 2)})
    for v in o["violations"]:
        rec = dict(v, engine="wx", extra={"profile": profile, "features": list(features), "input": v["input"]}, history=None, profile=profile, features=list(features))
        if prop is None or prop in v["prop"].split(","):
            agg["violations"].append(dict(rec, prop=prop or v["prop"].split(",")[0]))
        else:
            k = "%s:%s" % (v["prop"], v["oracle"])
            agg["collateral"][k] = agg["collateral"].get(k, 0) + 1
    return o


# properties that also get the 256-archetype world, with the build features it needs
WX_PROPS = {"C01": (), "C05": (), "C06": (), "C07": (), "C14": (), "C15": (), "C17": ("events",)}


def wx_into(agg, pid, tier):
    if pid in WX_PROPS:
        for profile in (("chk",) if tier == "quick" else ("chk", "rel")):
            wx_leg(agg, profile, pid, WX_PROPS[pid])


def check_c14(tier, seed, t0):
    agg = _agg()
    mode = "boundary" if tier == "quick" else "full"
    o1 = kx_leg(agg, "c14", mode, "rel", "C14")
    o2 = kx_leg(agg, "c14", "boundary", "chk", "C14")
    # all handles issued in explored histories (conversion laws + HashSet cardinality inside hx)
    hx = check_hx_props("C14", tier, [props.hx_leg("SB", props=["C14"]), props.hx_leg("SA", props=["C14"]), props.hx_leg("POP", sizes=[65537, 1048577])])
    for k in ("states", "transitions", "executions"):
        agg[k] += hx[k]
    agg["legs"] += hx["legs"]
    agg["violations"] += hx["violations"]
    agg["samples"] += hx["samples"][:2]
    wx_into(agg, "C14", tier)
    d1 = (o1 or {}).get("detail", {})
    agg["distinct_nontrivial"] = d1.get("boundary_values", 0) + (d1.get("full_sweep_keys", 0) * len(d1.get("full_sweep_generations", [])))
    agg["capped"] = False
    agg["rule"] = ("every (key, generation) value of the enumerated set is pushed through from_raw/raw, archetype_id, try_from/from_any/from_any_unchecked/into_any for three declared archetypes (ids 0, 7, 255), "
                   "the reference conversions, the Select* enums and Eq/Hash under two hashers; boundary set = all 256 archetype bytes x boundary positions x boundary generations (incl. 0, with the panicking conversions); "
                   "full set (thorough) = all 2^32 keys x 4 generations + all 2^24 direct indices x 3 archetypes x 2 versions; distinct_nontrivial = number of distinct (key, generation) values evaluated")
    return finish_generic("C14", tier, seed, "exploration", agg, t0)


def check_hx_props(pid, tier, legs):
    """Runs hx legs and returns an aggregate (subset of main.check_hx, without evidence writing)."""
    import main as M
    saved = props.plan
    try:
        props.plan = lambda p, t: legs
        return M.check_hx(pid, tier, 0)
    finally:
        props.plan = saved


# ------------------------------------------------------------------------------------------------
# ax
# ------------------------------------------------------------------------------------------------

def ax_leg(agg, depth, profile, features=()):
    binary = build("ax", profile, features)
    o = _json_out([binary, "run", "--depth", str(depth), "--out", _workfile("ax-%s" % profile), "--threads", str(NCPU)], _workfile("ax-%s" % profile))
    agg["evaluations"] += o["cells"]
    agg["distinct_nontrivial"] += o["cells_panicking"] + o["cells_cut_short_by_empty_archetype"]
    agg["legs"].append({"engine": "ax", "config": "%s[%s]" % (profile, ",".join(features)), **{k: o[k] for k in ("max_depth", "populations", "alphabet_size_full_population", "cells", "cells_panicking", "cells_completing", "cells_cut_short_by_empty_archetype", "cells_with_user_panic", "per_depth")}, "wall_s": round(o["wall_s"], 2)})
    agg["samples"] += [dict(s, engine="ax") for s in o["samples"][:4]]
    agg["capped"] |= o["capped"]
    for v in o["violations"]:
        agg["violations"].append(dict(v, engine="ax", history=None, profile=profile, features=list(features), extra={"stack": v["stack"], "popx": v["popx"], "popy": v["popy"], "profile": profile, "features": list(features)}))
    if not o["cells_panicking"] or not o["cells_completing"] or not o["cells_with_user_panic"]:
        raise MachineryError("vacuous ax run: %s" % {k: o[k] for k in ("cells_panicking", "cells_completing", "cells_with_user_panic")})
    return o


def check_c11(tier, seed, t0):
    agg = _agg()
    ax_leg(agg, 3 if tier == "quick" else 4, "chk")
    ax_leg(agg, 2 if tier == "quick" else 3, "rel")
    agg["rule"] = ("a cell is a stack of 1..D nested accesses (borrow_slice(_mut), Borrow::component(_mut), ecs_find_borrow!/ecs_iter_borrow! with 12 parameter forms incl. the same column twice, "
                   "world.clone() as inner access and as outer access through a component's Clone impl, a user panic) over populations X in {0,1,2} x Y in {0,1}; ALL stacks are enumerated; "
                   "the oracle is a reader/writer table per (archetype, column); after every cell (also unwound ones) every column must be mutably borrowable and the world clonable, and exactly the writes performed must be visible; "
                   "non-trivial = cells in which an access must be refused or is cut short by an empty archetype")
    return finish_generic("C11", tier, seed, "exploration", agg, t0)


# ------------------------------------------------------------------------------------------------
# px (+ real rustc conformance)
# ------------------------------------------------------------------------------------------------

def px_enum(agg, which, tier, features=()):
    binary = build("px", "chk", features, rustflags_extra="")
    o = _json_out([binary, which, "--tier", tier, "--out", _workfile("px-%s" % which), "--threads", str(NCPU)], _workfile("px-%s" % which))
    agg["evaluations"] += o["evaluations"]
    agg["distinct_nontrivial"] += o["distinct_nontrivial"]
    agg["capped"] |= o["capped"]
    agg["legs"].append({"engine": "px", "enumeration": which, "config": o["config"], "evaluations": o["evaluations"], "expected_rejections": o["expected_rejections"], "expansions_scanned_for_unsafe": o["expansions_scanned_for_unsafe"], "detail": o["detail"], "wall_s": round(o["wall_s"], 2)})
    agg["samples"] += [dict(s, engine="px") for s in o["samples"][:3]]
    for k, v in o["known"].items():
        agg["known_hits"][k] = agg["known_hits"].get(k, 0) + v
    return o


# the three flag predicates of `px emit --cfgflags`: the third is the key-value form of the first
PX_FLAGS = ["vp0", "vp1", 'vp0="x"']


def px_conformance(agg, prop, tier, features=(), cfgflags=None):
    """Compiles and runs the generated conformance programs with the real rustc / real proc macros."""
    binary = build("px", "chk", features, rustflags_extra="")
    d = os.path.join(WORK, "px", "%s%s.%d" % (prop, "" if cfgflags is None else "-tv%d" % cfgflags, os.getpid()))
    shutil.rmtree(d, ignore_errors=True)
    os.makedirs(d)
    env = env_base()
    env["GECS_REPO"] = REPO
    rc, out, err = run([binary, "emit", "--tier", tier, "--dir", d, "--prop", prop, "--shards", "12"] + ([] if cfgflags is None else ["--cfgflags", str(cfgflags)]), env=env, timeout=600)
    if rc != 0:
        raise MachineryError("px emit failed: %s" % (err or "")[-1500:])
    info = json.loads(out)["detail"]
    cases = {c["case"]: c for c in json.load(open(os.path.join(d, "cases.json")))}
    tgt = os.path.join(TARGET, "pxgen" + ("-" + "-".join(features) if features else "") + ("" if cfgflags is None else "-flags"))
    env = env_base()
    env["CARGO_TARGET_DIR"] = tgt
    env["RUSTFLAGS"] = "--cfg gecs_verif" + ("" if cfgflags is None else "".join(" --cfg " + PX_FLAGS[i] for i in range(3) if cfgflags & (1 << i)) + ' --check-cfg cfg(vp0,vp1) --check-cfg cfg(vp0,values("x"))')
    t1 = time.time()
    viol = []
    done = 0
    # the binaries land under fixed names in a target directory that concurrent checks share: build + run is one critical section
    os.makedirs(tgt, exist_ok=True)
    tgt_lock = open(os.path.join(tgt, ".verif-lock"), "w")
    fcntl.flock(tgt_lock, fcntl.LOCK_EX)
    for stale in glob.glob(os.path.join(tgt, "debug", "p[0-9]*")):
        try:
            os.remove(stale)
        except OSError:
            pass
    if info["positive_cases"]:
        shutil.copy(os.path.join(REPO, "Cargo.lock"), os.path.join(d, "pos", "Cargo.lock"))
        p = subprocess.run(["cargo", "build", "--offline", "--bins", "--message-format=short"], cwd=os.path.join(d, "pos"), env=env, stdout=subprocess.PIPE, stderr=subprocess.PIPE, text=True)
        if p.returncode != 0:
            # a well-formed program (per the reference) does not compile: find out which
            msgs = [l for l in p.stderr.splitlines() if "error" in l][:12]
            viol.append({"prop": prop, "oracle": "well-formed-program-does-not-compile", "msg": "the generated conformance crate (all programs well-formed per the reference, #![forbid(unsafe_code)]) failed to compile: " + " / ".join(msgs), "program": "\n".join(msgs)})
        else:
            for b in sorted(glob.glob(os.path.join(tgt, "debug", "p[0-9]*"))):
                if not os.access(b, os.X_OK) or b.endswith(".d"):
                    continue
                rc, out, err = run([b], timeout=600)
                for line in out.splitlines():
                    try:
                        m = json.loads(line)
                    except Exception:
                        if line.lstrip().startswith("{"):
                            # a report line of the runner that does not parse must never be dropped silently
                            raise MachineryError("conformance binary %s printed a report line that is not JSON: %s" % (b, line[:300]))
                        continue
                    if m["kind"] == "done":
                        done += 1
                    else:
                        c = cases.get(m["case"], {})
                        viol.append({"prop": m["prop"], "oracle": "rustc-conformance:" + m["kind"], "msg": "compiled with the real macros, case %s: got %s, expected %s" % (m["case"], m.get("got"), m.get("want")),
                                     "program": json.dumps(c)})
                if rc != 0:
                    # Every case runs under catch_unwind, so a dying runner is an abort or a signal inside a client program that
                    # is #![forbid(unsafe_code)]: if it dies the same way when run again, that is the library's doing (a verdict);
                    # anything else stays a machinery error - and never pre-empts violations already reported.
                    rc2, out2, err2 = run([b], timeout=600)
                    if rc2 == rc and (rc < 0 or rc in (101, 132, 134, 136, 139)):
                        last = [l for l in out.splitlines() if l.lstrip().startswith("{")][-1:]
                        viol.append({"prop": prop, "oracle": "rustc-conformance:client-program-crashed", "msg": "conformance binary %s (well-formed programs, #![forbid(unsafe_code)], compiled with the real macros) dies with rc=%s on every run; last report line before the death: %s; stderr: %s" % (os.path.basename(b), rc, last, (err or "")[-300:]), "program": os.path.basename(b)})
                    elif not viol:
                        raise MachineryError("conformance binary %s died with rc=%s (rc=%s when run again): %s" % (b, rc, rc2, (err or "")[-500:]))
        if not viol and done != info["positive_cases"]:
            raise MachineryError("conformance: %d of %d cases reported completion" % (done, info["positive_cases"]))
    fcntl.flock(tgt_lock, fcntl.LOCK_UN)
    tgt_lock.close()
    negs_checked = 0
    known_f7 = 0
    if info["negative_programs"]:
        shutil.copy(os.path.join(REPO, "Cargo.lock"), os.path.join(d, "neg", "Cargo.lock"))
        p = subprocess.run(["cargo", "build", "--offline", "--bins", "--keep-going", "--message-format=json"], cwd=os.path.join(d, "neg"), env=env, stdout=subprocess.PIPE, stderr=subprocess.PIPE, text=True)
        errs = {}
        built = set()
        for line in p.stdout.splitlines():
            try:
                m = json.loads(line)
            except Exception:
                continue
            if m.get("reason") == "compiler-message" and m["message"]["level"] == "error":
                errs.setdefault(m["target"]["name"], []).append(m["message"]["message"])
            if m.get("reason") == "compiler-artifact":
                built.add(m["target"]["name"])
        if "gecs" not in built:
            raise MachineryError("conformance (negative programs): gecs itself did not build:\n" + p.stderr[-1200:])
        for e in json.load(open(os.path.join(d, "neg", "expectations.json"))):
            negs_checked += 1
            got = errs.get(e["bin"], [])
            if e["bin"] == "n16f7":
                if any(e["expect"] in g for g in got):
                    known_f7 += 1
                    continue
                if not got:
                    continue  # the limitation was lifted: not a violation
            if not got:
                viol.append({"prop": e["prop"], "oracle": "ill-formed-program-compiles", "msg": "expected the diagnostic '%s' but the program compiled" % e["expect"], "program": e["program"]})
            elif not any(e["expect"] in g for g in got):
                viol.append({"prop": e["prop"], "oracle": "wrong-diagnostic", "msg": "expected the diagnostic '%s', rustc said: %s" % (e["expect"], got[:2]), "program": e["program"]})
    if known_f7:
        agg["known_hits"]["C16:cfg-on-oneof-rejected"] = agg["known_hits"].get("C16:cfg-on-oneof-rejected", 0) + known_f7
    agg["legs"].append({"engine": "px+rustc", "property": prop, "cfg_flags": None if cfgflags is None else [PX_FLAGS[i] for i in range(3) if cfgflags & (1 << i)], "positive_cases_compiled_and_run": done, "queries_run": info["queries"], "negative_programs_compiled": negs_checked, "forbid_unsafe_code": True, "wall_s": round(time.time() - t1, 1)})
    agg["programs"] = agg.get("programs", 0) + done + negs_checked
    for c in list(cases.values())[:2]:
        agg["samples"].append(dict(c, engine="px+rustc"))
    shutil.rmtree(d, ignore_errors=True)
    return viol


def _px_violations(agg, o, pid, also=()):
    for v in o["violations"]:
        rec = dict(v, engine="px", history=None, extra={"program": v["program"]})
        if v["prop"] == pid or v["prop"] in also:
            agg["violations"].append(rec)
        else:
            k = "%s:%s" % (v["prop"], v["oracle"])
            agg["collateral"][k] = agg["collateral"].get(k, 0) + 1


def check_px(pid, tier, seed, t0):
    which = {"C05": "c05", "C15": "c15", "C16": "c16"}[pid]
    agg = _agg()
    # guarded like every other leg: if the engine that binds the macro sources as a library no longer builds against this tree
    # (an internal signature changed), the legs that only need the public macros (conformance programs, wx, cx) still decide
    o = _guarded(agg, px_enum, agg, which, tier)
    if o is not None:
        _px_violations(agg, o, pid)
    runs = [None]
    if pid == "C16" and tier == "thorough":
        # the same decorated/twin pairs with predicates that are real `--cfg` flags: one compilation per truth vector
        runs += list(range(8))
    for flags in runs:
        for v in (_guarded(agg, px_conformance, agg, pid, tier, cfgflags=flags) or []):
            rec = dict(v, engine="px+rustc", history=None, extra={"program": v["program"], "cfg_flags": flags})
            if v["prop"] == pid:
                agg["violations"].append(rec)
            else:
                k = "%s:%s" % (v["prop"], v["oracle"])
                agg["collateral"][k] = agg["collateral"].get(k, 0) + 1
    agg["rule"] = {
        "C05": "all world declarations over the component pool (every sequence of non-empty component subsets as archetypes; archetype names include one that is a prefix of another) x all parameter lists up to the length bound over (&C, &mut C, OneOf of every non-empty subset, Entity<A>/EntityDirect<A> for every archetype and one foreign name, the wildcard and dynamic forms) x the five generators are run through the REAL bind/generate code (macro sources compiled as a library) and compared with an independent set computation: matched archetype set, bound column per parameter, diagnostics; a systematic stride of them is compiled and executed with the real rustc; non-trivial = queries that do not match every archetype, contain a OneOf, or must be rejected",
        "C15": "all declarations of 1..k archetypes (and 1..k components) each with an explicit id from {none,0,1,2,254,255} and a cfg-disabled flag, plus all mixed two-archetype/two-component id assignments, are run through the REAL DataWorld::new and compared with the discriminant fold; a systematic stride is compiled with the real rustc (constants, ecs_component_id!, handle ids, SelectArchetype over all 256 ids; ill-formed ones must fail with the right diagnostic); non-trivial = declarations with >= 2 enabled items or that must be rejected",
        "C16": "all assignments of {none,p0,p1,p2} to the six decoration sites of a 2x2 declaration (x id variants) x all truth vectors, and all parameter lists (x decorations x truth vectors x five generators) are run through the real code and compared (a) with the reference 'delete disabled items' and (b) differentially with the undecorated twin (token-identical expansion after cfg-stripping); decorated/twin module pairs with >= 2 distinct predicates of mixed truth are compiled and executed with the real rustc (this exercises the generated cfg-probing macro chain); non-trivial = cases with >= 2 predicates of mixed truth",
    }[pid]
    _guarded(agg, wx_into, agg, pid, tier)
    # client programs of an unusual but legal shape that must compile (real rustc; the corpus entries of cx that belong to
    # this property): component names with digits / acronyms / underscores (C05: a valid query must bind to its column),
    # a query naming a compiled-out archetype in a compiled-out parameter (C16)
    only = {"C05": ("unusual_names", "two_worlds_same_name"), "C16": ("cfg_disabled_archetype_named",)}.get(pid)
    if only:
        import cx
        res = _guarded(agg, cx.run, (), "default", only=only)
        for x in (res or {}).get("results", []):
            if not x["twin_compiles"]:
                agg["violations"].append({"prop": pid, "oracle": "well-formed-program-does-not-compile:" + x["name"].split("__")[0], "msg": "a valid client program (%s) does not compile: %s" % (x["name"], x["twin_errors"][:3]),
                                          "engine": "cx", "history": None, "extra": {"program": x["good"]}})
            elif not x["rejected"]:
                agg["violations"].append({"prop": pid, "oracle": "ill-formed-program-compiles:" + x["name"].split("__")[0], "msg": "the ill-formed twin of %s compiles" % x["name"], "engine": "cx", "history": None, "extra": {"program": x["bad"]}})
        agg["evaluations"] += (res or {}).get("programs", 0)
        agg["programs"] = agg.get("programs", 0) + (res or {}).get("programs", 0)
    _settle(agg)
    return finish_generic(pid, tier, seed, "exploration", agg, t0)


# ------------------------------------------------------------------------------------------------
# C18
# ------------------------------------------------------------------------------------------------

def check_c18(tier, seed, t0):
    import cx
    agg = _agg()
    scanned = 0
    for feats in ((), ("events",)):
        for which in ("c05", "c15", "c16"):
            if feats and which == "c05" and tier == "quick":
                continue
            o = px_enum(agg, which, tier, feats)
            scanned += o["expansions_scanned_for_unsafe"]
            _px_violations(agg, o, "C18")
    # every positive conformance crate is compiled under #![forbid(unsafe_code)]
    for v in px_conformance(agg, "C05", tier):
        if "does-not-compile" in v["oracle"] and "unsafe" in v["msg"]:
            agg["violations"].append(dict(v, prop="C18", oracle="forbid-unsafe-code-rejects-expansion", engine="px+rustc", history=None, extra={"program": v["program"]}))
    res = cx.run((), "default")
    if tier == "thorough":
        for feats, tag in ((("events",), "events"), (("32_components",), "c32")):
            r2 = cx.run(feats, tag)
            res["results"] += [dict(x, name=x["name"] + "@" + tag) for x in r2["results"]]
            res["programs"] += r2["programs"]
    nontriv = 0
    broken_twins = [x for x in res["results"] if not x["twin_compiles"]]
    if len(broken_twins) * 2 > len(res["results"]):
        # nothing compiles: the tree (or the toolchain) is broken, which is not a statement about the property
        raise MachineryError("most sound twins do not compile on this tree, e.g. %s: %s" % (broken_twins[0]["name"], broken_twins[0]["twin_errors"]))
    for x in res["results"]:
        if not x["twin_compiles"]:
            # every twin is a sound program that compiles on the pinned tree: rejecting it is the other direction of the envelope
            # (e.g. a world of Send components that is no longer Send)
            agg["violations"].append({"prop": "C18", "oracle": "sound-program-rejected:" + x["name"].split("__")[0], "msg": "the sound twin of '%s' does not compile: %s" % (x["name"], x["twin_errors"][:3]), "engine": "cx", "history": None, "extra": {"program": x["good"]}})
            continue
        if not x["rejected"]:
            agg["violations"].append({"prop": "C18", "oracle": "unsound-program-compiles:" + x["name"].split("__")[0], "msg": "the unsound program '%s' compiles (its twin differs only in statement order)" % x["name"], "engine": "cx", "history": None, "extra": {"program": x["bad"], "twin": x["good"]}})
        elif not x["family_ok"]:
            # still rejected, so the property holds for this program; on the unchanged tree this would indicate a corpus bug,
            # but the check cannot tell trees apart, so it is recorded and not turned into a verdict
            agg["collateral"]["cx:rejected-with-unexpected-family:" + x["name"]] = 1
            nontriv += 1
        else:
            nontriv += 1
    agg["evaluations"] += res["programs"]
    agg["distinct_nontrivial"] = nontriv + scanned
    agg["programs"] = agg.get("programs", 0) + res["programs"]
    agg["legs"].append({"engine": "cx", "programs": res["programs"], "pairs": len(res["results"]), "rejected_with_expected_family": nontriv, "wall_s": round(res["wall_s"], 1)})
    agg["samples"].append({"engine": "cx", "name": res["results"][0]["name"], "unsound": res["results"][0]["bad"], "twin": res["results"][0]["good"], "codes": res["results"][0]["codes"]})
    agg["rule"] = ("(a) every token stream the five query generators and generate_world emit in the exhaustive enumerations of C05/C15/C16 (with and without feature events) is walked: no `unsafe` identifier may occur; every compiled conformance crate carries #![forbid(unsafe_code)]; "
                   "(b) matrix of minimal unsound programs {view, borrow, component guard, Ref/RefMut slice, get_slice(_mut), get_all_slices_mut, iter/iter_mut item, entities(), component reference} x {create, create_within_capacity, destroy (typed, dynamic), archetype-level create/destroy, ecs_iter_destroy!, drop, mem::take}, references escaping each macro's closure, two accesses to one component per compile-time checked macro, structural change inside a closure, &mut on 6 entity parameter kinds x 5 macros, Sync/Send envelope, component limit; each paired with a sound twin; the real rustc decides; "
                   "distinct_nontrivial = expansions scanned + unsound programs rejected with an error of the expected family while their twin compiles")
    agg["explanation"] = "the universal claim over all client programs is only as strong as the matrix; unsafe-freedom is universal over the enumerated program space"
    return finish_generic("C18", tier, seed, "exploration", agg, t0)


# ------------------------------------------------------------------------------------------------
# C03 (hx legs + kx sweeps), C19 (configuration matrix)
# ------------------------------------------------------------------------------------------------

def check_c03(tier, seed, t0):
    import main as M
    agg = M.check_hx("C03", tier, seed)
    agg.setdefault("evaluations", 0)
    _guarded(agg, kx_leg, agg, "c03", "boundary", "chk", "C03")
    _guarded(agg, kx_leg, agg, "c03", "boundary" if tier == "quick" else "full", "rel", "C03")
    # the boundary sweep once more under AddressSanitizer (no debug assertions): silent out-of-bounds reads become process deaths
    _guarded(agg, kx_leg, agg, "c03", "boundary", "rel", "C03", san="asan")
    _settle(agg)
    if not agg["violations"]:
        if agg.get("unconfirmed"):
            raise MachineryError("violations were observed that do not replay deterministically, and nothing else was found: " + " | ".join(agg["unconfirmed"][:3]))
        props.vacuity("C03", agg)
    agg["explanation"] = "states x forged universe in hx (positions 0..capacity+1 and 2^24-1 x every generation present +-1, 1, 2, MAX x archetype bytes; direct handles: indices 0..len+1, 2^24-1 x versions around the current one), plus kx sweeps of four fixed states over the key space"
    return M.finish("C03", tier, seed, "model_checking", agg, t0)


MX_CONFIGS_QUICK = [
    ((), "chk"), (("events",), "chk"), (("wrapping_version",), "rel"), (("wrapping_version",), "chk"), (("32_components",), "chk"), (("32_components", "events", "wrapping_version"), "rel"),
]
MX_CONFIGS_ALL = [(tuple(f for f, on in zip(("32_components", "events", "wrapping_version"), (a, b, c)) if on), p) for a in (0, 1) for b in (0, 1) for c in (0, 1) for p in ("chk", "rel")]


def check_c19(tier, seed, t0):
    import main as M, cx
    agg = _agg()
    configs = MX_CONFIGS_QUICK if tier == "quick" else MX_CONFIGS_ALL
    graph = {}
    per_config = []
    for feats, profile in configs:
        t1 = time.time()
        if feats:
            # a feature combination under which the library itself no longer compiles (while the default configuration does)
            try:
                build("kx", profile, feats)
            except BuildFailed as e:
                if getattr(e, "in_library", False):
                    agg["violations"].append({"prop": "C19", "oracle": "configuration-does-not-build[%s %s]" % (profile, ",".join(feats)), "engine": "mx", "history": None,
                                              "msg": "gecs does not compile with features %s: %s" % (list(feats), " / ".join(l for l in e.tail.splitlines() if l.startswith("error"))[:600]),
                                              "extra": {"program": "cargo build --features %s" % ",".join(feats)}})
                    continue
                raise
        legs = [props.hx_leg("SA", profile=profile, features=feats, L=3, D=7, props=["C01", "C02", "C04", "C06", "C07", "C08", "C09", "C12", "C14"] + (["C03"] if profile == "rel" else []) + (["C17"] if "events" in feats else [])),
                props.hx_leg("SE", profile=profile, features=feats, props=["C08", "C10", "C01", "C04", "C12"] + (["C17"] if "events" in feats else [])),
                props.hx_leg("SF", profile=profile, features=feats, props=["C10", "C01", "C04", "C12"] + (["C17"] if "events" in feats else []))]
        if "events" in feats:
            legs.append(props.hx_leg("SG", profile=profile, features=feats, props=["C17", "C01"]))
        if "32_components" in feats:
            legs.append(props.hx_leg("SC32", profile=profile, features=feats, drop_world=True, props=["C02", "C04", "C12", "C01", "C06", "C07", "C09", "C13"] + (["C17"] if "events" in feats else [])))
        # whole-population leg in every configuration (profile rel: the debug_checked_assume! paths are live at scale)
        legs.append(props.hx_leg("POP", profile=profile, features=feats, sizes=[65537, 1048577]))
        if tier == "thorough" and profile == "rel" and feats == ("wrapping_version",):
            # the real 2^32 wraparound, without hooks
            legs.append(props.hx_leg("CYCLE", profile=profile, features=feats))
        sub = check_hx_props("C19", "quick", legs)
        for k in ("states", "transitions", "executions"):
            agg[k] += sub[k]
        for k, v in sub["counters"].items():
            agg["counters"][k] = max(agg["counters"].get(k, 0), v) if k == "max_generation_delta" else agg["counters"].get(k, 0) + v
        for k, v in sub["known_hits"].items():
            agg["known_hits"][k] = agg["known_hits"].get(k, 0) + v
        for v in sub["violations"]:
            agg["violations"].append(dict(v, oracle="%s[%s %s]" % (v["oracle"], profile, ",".join(feats) or "default")))
        for leg in sub["legs"]:
            # feature-independent scenarios must have the same reachable graph in every configuration that shares the overflow semantics
            fam = leg["scenario"].split("/")[0]
            if fam in ("S-A", "S-F") or (fam == "S-E"):
                key = (leg["scenario"], "wrapping" if ("wrapping_version" in feats and fam == "S-E") else "std")
                cnt = (leg["unique_states"], leg["transitions"])
                if key in graph and graph[key][0] != cnt:
                    agg["violations"].append({"prop": "C19", "oracle": "feature-changes-reachable-graph:" + fam, "msg": "scenario %s has %s (states, transitions) under [%s %s] but %s under [%s]" % (leg["scenario"], cnt, profile, ",".join(feats), graph[key][0], graph[key][1]),
                                              "engine": "mx", "history": None, "extra": {"scenario": leg["scenario"]}})
                graph.setdefault(key, (cnt, "%s %s" % (profile, ",".join(feats))))
        a2 = _agg()
        if tier == "thorough" or (feats, profile) in ((("events",), "chk"), (("wrapping_version",), "rel")):
            wx_leg(a2, profile, None, feats)
        ax_leg(a2, 2, profile, feats)
        kx_leg(a2, "c14", "boundary", profile, "C14", feats)
        kx_leg(a2, "c03", "boundary", profile, "C03", feats)
        for v in a2["violations"]:
            agg["violations"].append(dict(v, oracle="%s[%s %s]" % (v["oracle"], profile, ",".join(feats) or "default")))
        agg["evaluations"] += a2["evaluations"]
        for k, v in a2["known_hits"].items():
            agg["known_hits"][k] = agg["known_hits"].get(k, 0) + v
        per_config.append({"features": list(feats), "profile": profile, "hx_states": sub["states"], "hx_transitions": sub["transitions"], "ax_cells": [l for l in a2["legs"] if l.get("engine") == "ax"][0]["cells"], "kx_wx_evaluations": a2["evaluations"] - [l for l in a2["legs"] if l.get("engine") == "ax"][0]["cells"], "wall_s": round(time.time() - t1, 1)})
        log("C19 config [%s %s]: %d states, %d transitions, %.0fs" % (profile, ",".join(feats) or "default", sub["states"], sub["transitions"], time.time() - t1))
    # `events` off => no event API; on => it exists (compile-level, real rustc); component limit under 32_components
    for feats, tag in (((), "default"), (("events",), "events")) + ((((("32_components",), "c32")),) if tier == "thorough" else ()):
        res = cx.run(feats, tag, only=("component_limit", "event_api", "hold_world_iter", "hold_arch_iter"))
        for x in res["results"]:
            if not x["twin_compiles"]:
                agg["violations"].append({"prop": "C19", "oracle": "feature-envelope:twin-rejected:" + x["name"], "msg": "with features %s the program that must compile does not: %s" % (list(feats), x["twin_errors"]), "engine": "cx", "history": None, "extra": {"program": x["good"]}})
            if not x["rejected"]:
                agg["violations"].append({"prop": "C19", "oracle": "feature-envelope:accepted:" + x["name"], "msg": "with features %s the program that must be rejected compiles" % (list(feats),), "engine": "cx", "history": None, "extra": {"program": x["bad"]}})
        agg["evaluations"] += res["programs"]
    agg["distinct_nontrivial"] = len(configs)
    agg["legs"] = per_config
    agg["rule"] = ("the history explorations (S-A with the oracles of C01/C02/C04/C06/C07/C08/C09/C12/C14 (+C03 without assertions), S-E across the 2^32 boundary, S-F with injected panics, S-G when events is on, the 17/24/32-column archetypes when 32_components is on), "
                   "the access-nesting matrix and the key-space boundary sweeps are rebuilt and re-run under each configuration; verdicts must be clean in all of them and feature-independent scenarios must have identical (states, transitions); "
                   "quick = covering subset of 5 configurations (each feature on and off, assertions on and off, all on); thorough = all 8 feature sets x {debug assertions on, off}; distinct_nontrivial = configurations")
    agg["samples"] = [{"features": list(f), "profile": p} for f, p in configs[:6]]
    agg["capped"] = False
    return finish_generic("C19", tier, seed, "exploration", agg, t0)


# ------------------------------------------------------------------------------------------------

def finish_generic(pid, tier, seed, level, agg, t0):
    import main as M
    extra = {}
    if "programs" in agg:
        extra["programs"] = agg["programs"]
    return M.finish(pid, tier, seed, level, agg, t0, extra_cov=extra,
                    assumptions=["rustc/std and cargo as installed", "the engines' own reference models (independent of the gecs sources)", "bounds as listed in coverage.bounds / coverage.rule"])


def check(pid, tier, seed, t0):
    if pid == "C14":
        return check_c14(tier, seed, t0)
    if pid == "C11":
        return check_c11(tier, seed, t0)
    if pid in ("C05", "C15", "C16"):
        return check_px(pid, tier, seed, t0)
    if pid == "C18":
        return check_c18(tier, seed, t0)
    if pid == "C19":
        return check_c19(tier, seed, t0)
    raise MachineryError("unknown property " + pid)


def replay(rp):
    ex = rp.get("extra") or {}
    eng = rp.get("engine")
    if eng == "kx":
        env = env_base()
        if ex.get("sanitizer") == "asan":
            binary = build("kx", ex.get("profile", "rel"), tuple(ex.get("features") or ()), toolchain="nightly", rustflags_extra="-Zsanitizer=address", target_sub="asan", extra_args=("--target=x86_64-unknown-linux-gnu",))
            env["ASAN_OPTIONS"] = "exitcode=77:detect_leaks=0:abort_on_error=0"
        else:
            binary = build("kx", ex.get("profile", "rel"), tuple(ex.get("features") or ()))
        inp = ex["input"]
        if ex["sweep"] == "c14":
            cmd = [binary, "replay-c14", str(inp["key"]), str(inp["gen"])]
        else:
            which = {"empty(cap 4)": 0, "capacity 0": 1, "full(cap 4)": 2}.get(inp.get("state"), 3)
            cmd = [binary, "replay-c03", str(which), str(inp["key"]), str(inp["gen"]), str(inp.get("world_level", 1))]
        rc, out, err = run(cmd, env=env)
        print(out)
        if rc not in (0, 1):
            print("process died with rc=%s\n%s" % (rc, (err or "")[-2000:]))
        return 1 if rc != 0 else 0
    if eng == "wx":
        binary = build("wx", ex.get("profile", "chk"), tuple(ex.get("features") or ()))
        rc, out, err = run([binary, "replay", ex["input"]["phase"], str(ex["input"]["archetype_index"])])
        print(out)
        return 1 if rc != 0 else 0
    if eng == "ax":
        binary = build("ax", ex.get("profile", "chk"), tuple(ex.get("features") or ()))
        rc, out, err = run([binary, "replay", json.dumps(ex["stack"]), str(ex["popx"]), str(ex["popy"])])
        print(out)
        return 1 if rc != 0 else 0
    if eng in ("cx", "px", "px+rustc", "mx"):
        print("program under test:\n" + str(ex.get("program")))
        if ex.get("twin"):
            print("sound twin:\n" + ex["twin"])
        print("re-run `./verif check %s` to re-evaluate it against the current tree (the deciding step is rustc / the macro sources themselves)" % rp.get("property"))
        return 1
    raise MachineryError("cannot replay engine %s" % eng)


def build_all():
    """setup_cmd: build every engine configuration the quick tier uses, so that the checks only rebuild what changed."""
    t0 = time.time()
    for prof, feats in (("chk", ()), ("rel", ()), ("chk", ("wide",)), ("chk", ("events",))):
        build("hx", prof, feats)
    build("hx", "rel", (), toolchain="nightly", rustflags_extra="-Zsanitizer=address", target_sub="asan", extra_args=("--target=x86_64-unknown-linux-gnu",))
    for feats, prof in MX_CONFIGS_QUICK[2:]:
        build("hx", prof, feats)
    for prof in ("chk", "rel"):
        build("kx", prof)
        build("ax", prof)
    build("px", "chk", (), rustflags_extra="")
    build("px", "chk", ("events",), rustflags_extra="")
    build("wx", "chk")
    build("wx", "chk", ("events",))
    build("wx", "rel", ("wrapping_version",))
    log("setup: all quick-tier engine configurations built in %.0fs" % (time.time() - t0))
    return 0
