"""Demonstrating detection: apply each mutants/*.patch to the repository under test, make sure the repository's own
suite still passes with it (guard off), and run the quick checks of the targeted properties (all checks for neutral
variants). Results go to mutants/results.json. The patch is always reverted afterwards."""
import glob, json, os, re, subprocess, sys, time
from common import *

ALL = ["C%02d" % i for i in range(1, 20)]


def sh(cmd, cwd=None, env=None, timeout=None):
    p = subprocess.run(cmd, cwd=cwd, env=env, stdout=subprocess.PIPE, stderr=subprocess.STDOUT, text=True, timeout=timeout)
    return p.returncode, p.stdout


def repo_clean():
    rc, out = sh(["git", "-C", REPO, "status", "--porcelain", "--untracked-files=no"])
    return out.strip() == ""


def suite_passes():
    env = env_base()
    env.pop("RUSTFLAGS", None)
    rc, out = sh(["cargo", "test", "--workspace", "--no-fail-fast", "--offline"], cwd=REPO, env=env, timeout=1800)
    passed = sum(int(x) for x in re.findall(r"test result: \w+\. (\d+) passed", out))
    failed = sum(int(x) for x in re.findall(r"test result: \w+\. \d+ passed; (\d+) failed", out))
    return rc == 0 and failed == 0, passed, failed, out[-1500:]


def run_check(pid, tier="quick"):
    t0 = time.time()
    rc, out = sh([os.path.join(VERIF, "verif"), "check", pid, "--tier", tier], cwd=VERIF, env=dict(os.environ), timeout=7200)
    lines = [l for l in out.splitlines() if l.startswith("VIOLATION") or l.startswith("MACHINERY") or l.startswith("  oracle")]
    return rc, lines, round(time.time() - t0, 1)


def run(names, jobs=1):
    idx = json.load(open(os.path.join(VERIF, "mutants", "index.json")))
    if names:
        idx = [m for m in idx if any(m["name"].startswith(n) for n in names)]
    res_path = os.path.join(VERIF, "mutants", "results.json")
    results = json.load(open(res_path)) if os.path.exists(res_path) else {}
    rc, head = sh(["git", "-C", REPO, "rev-parse", "--short", "HEAD"])
    for m in idx:
        patch = os.path.join(VERIF, "mutants", m["name"] + ".patch")
        if not repo_clean():
            print("repository under test (%s) has local changes; refusing to apply mutants" % REPO)
            return 2
        rc, out = sh(["git", "-C", REPO, "apply", patch])
        if rc != 0:
            results[m["name"]] = {"status": "patch-does-not-apply", "detail": out[-400:]}
            continue
        entry = {"targets": m["targets"], "why": m["why"], "repo_head": head.strip(), "checks": {}}
        try:
            ok, passed, failed, tail = suite_passes()
            entry["repo_suite"] = {"passes": ok, "passed": passed, "failed": failed}
            if not ok:
                entry["status"] = "discarded: the repository's own suite notices this change"
                entry["suite_tail"] = tail[-600:]
            else:
                pids = m["targets"] if m["targets"] else ALL
                detected = []
                for pid in pids:
                    rc, lines, wall = run_check(pid)
                    entry["checks"][pid] = {"exit": rc, "wall_s": wall, "lines": [l[:300] for l in lines[:6]]}
                    if rc == 1:
                        detected.append(pid)
                if m["targets"]:
                    entry["status"] = "detected" if detected else "MISSED"
                    entry["detected_by"] = detected
                else:
                    alarms = [p for p, c in entry["checks"].items() if c["exit"] != 0]
                    entry["status"] = "silent (as required)" if not alarms else "FALSE-ALARM"
                    entry["alarms"] = alarms
        finally:
            sh(["git", "-C", REPO, "checkout", "--", "."])
        results[m["name"]] = entry
        write_json(res_path, results)
        print("%-44s %s %s" % (m["name"], entry.get("status"), entry.get("detected_by") or entry.get("alarms") or ""), flush=True)
    bad = [n for n, e in results.items() if e.get("status") in ("MISSED", "FALSE-ALARM")]
    print("selftest: %d mutants, problems: %s" % (len(results), bad or "none"))
    return 1 if bad else 0
