"""Engine cx: matrix of minimal unsound client programs, each paired with a sound twin that differs only in
statement order / one token. The real rustc decides: the twin must compile, the unsound program must be
rejected with an error of the borrow / lifetime / auto-trait family (or the macro's own diagnostic)."""
import json, os, shutil, subprocess, time
from common import *

PRELUDE = """#![allow(unused)]
#![forbid(unsafe_code)]
use gecs::prelude::*;
pub struct CompA(pub u32);
pub struct CompB(pub u32);
ecs_world! {
    ecs_archetype!(ArchFoo, CompA, CompB);
    ecs_archetype!(ArchBar, CompA);
}
"""

SETUP = """    let mut world = EcsWorld::new();
    let e = world.create::<ArchFoo>((CompA(1), CompB(2)));
    let e2 = world.create::<ArchFoo>((CompA(3), CompB(4)));
    let f = world.create::<ArchBar>((CompA(5),));
"""

# (name, statements that acquire `h`, statement that uses `h`)
HOLDERS = [
    ("view_world", "let mut h = world.view(e).unwrap();", "h.component_mut::<CompA>().0 += 1;"),
    ("view_arch", "let mut h = world.arch_foo.view(e).unwrap();", "h.component_mut::<CompB>().0 += 1;"),
    ("borrow_world", "let h = world.borrow(e).unwrap();", "let _ = h.component::<CompA>().0;"),
    ("borrow_arch", "let h = world.arch_foo.borrow(e).unwrap();", "let _ = h.entity();"),
    ("borrow_component_guard", "let b = world.borrow(e).unwrap(); let h = b.component_mut::<CompA>();", "let _ = h.0;"),
    ("ref_slice", "let h = world.arch_foo.borrow_slice::<CompA>();", "let _ = h.len();"),
    ("refmut_slice", "let mut h = world.arch_foo.borrow_slice_mut::<CompA>();", "h[0].0 += 1;"),
    ("get_slice", "let h = world.arch_foo.get_slice::<CompA>();", "let _ = h.len();"),
    ("get_slice_mut", "let h = world.arch_foo.get_slice_mut::<CompB>();", "h[0].0 += 1;"),
    ("all_slices", "let h = world.arch_foo.get_all_slices_mut();", "let _ = h.comp_a.len();"),
    ("iter_item", "let mut it = world.arch_foo.iter(); let h = it.next().unwrap();", "let _ = (h.1).0;"),
    ("iter_mut_item", "let mut it = world.arch_foo.iter_mut(); let h = it.next().unwrap();", "(h.1).0 += 1;"),
    ("entities", "let h = world.arch_foo.entities();", "let _ = h.len();"),
    ("component_ref_from_view", "let v = world.view(e).unwrap(); let h: &CompA = v.comp_a;", "let _ = h.0;"),
]

# structural changes of the world
CHANGES = [
    ("create", "world.create::<ArchFoo>((CompA(7), CompB(8)));"),
    ("create_within", "let _ = world.create_within_capacity::<ArchFoo>((CompA(7), CompB(8)));"),
    ("destroy", "world.destroy(e2);"),
    ("destroy_any", "world.destroy(e2.into_any());"),
    ("arch_create", "world.arch_foo.create((CompA(7), CompB(8)));"),
    ("arch_destroy", "world.arch_foo.destroy(e2);"),
    ("iter_destroy", "ecs_iter_destroy!(world, |_a: &CompA| EcsStepDestroy::ContinueDestroy);"),
    ("drop", "drop(world);"),
    ("mem_take", "let _w = std::mem::take(&mut world);"),
]

BORROW_FAMILY = {"E0499", "E0502", "E0503", "E0505", "E0506", "E0507", "E0515", "E0521", "E0597", "E0716", "E0382", "E0373", "E0596", "E0594"}
LIFETIME_TEXT = ("lifetime may not live long enough", "borrowed data escapes", "does not live long enough", "captured variable cannot escape")
TRAIT_FAMILY = {"E0277"}
MACRO_TEXT = ("mut entity access is forbidden",)
MISSING_FAMILY = {"E0412", "E0433", "E0405", "E0432", "E0425", "E0599"}

ENTITY_PARAMS = ["Entity<ArchFoo>", "Entity<_>", "EntityAny", "EntityDirect<ArchFoo>", "EntityDirect<_>", "EntityDirectAny"]
MACROS = [("ecs_find", "world, e, "), ("ecs_find_borrow", "world, e, "), ("ecs_iter", "world, "), ("ecs_iter_borrow", "world, "), ("ecs_iter_destroy", "world, ")]


def prog(body, prelude=PRELUDE, setup=SETUP):
    return prelude + "fn main() {\n" + setup + body + "}\n"


def corpus(features=()):
    """Returns a list of cases: {name, bad, good, family: 'borrow'|'trait'|'macro'|'missing', must_compile_only}."""
    out = []
    for hn, acquire, use in HOLDERS:
        for cn, change in CHANGES:
            bad = prog("    %s\n    %s\n    %s\n" % (acquire, change, use))
            good = prog("    {\n        %s\n        %s\n    }\n    %s\n" % (acquire, use, change))
            out.append(dict(name="hold_%s__%s" % (hn, cn), bad=bad, good=good, family="borrow"))
    # a compile-time checked access kept alive across a RUNTIME-checked access to the same archetype (the runtime-borrowed
    # API takes &self, the compile-time checked one &mut self: mixing them must be rejected by the borrow checker)
    runtime = [
        ("borrow_slice_mut", "let mut g = world.arch_foo.borrow_slice_mut::<CompA>(); g[0].0 += 1; drop(g);"),
        ("borrow_slice", "let g = world.arch_foo.borrow_slice::<CompA>(); let _ = g.len(); drop(g);"),
        ("borrow_component_mut", "{ let b = world.arch_foo.borrow(e).unwrap(); b.component_mut::<CompA>().0 += 1; }"),
        ("find_borrow_mut", "ecs_find_borrow!(world, e, |a: &mut CompA| { a.0 += 1; });"),
        ("iter_borrow_mut", "ecs_iter_borrow!(world, |a: &mut CompA| { a.0 += 1; });"),
        ("clone", "let _c = { #[derive(Clone)] struct Z; world.arch_foo.len() };"),
    ]
    ct_holders = [h for h in HOLDERS if h[0] in ("view_world", "view_arch", "get_slice", "get_slice_mut", "all_slices", "iter_item", "iter_mut_item", "component_ref_from_view")]
    for hn, acquire, use in ct_holders:
        for rn, access in runtime[:5]:
            bad = prog("    %s\n    %s\n    %s\n" % (acquire, access, use))
            good = prog("    {\n        %s\n        %s\n    }\n    %s\n" % (acquire, use, access))
            out.append(dict(name="mix_%s__%s" % (hn, rn), bad=bad, good=good, family="borrow"))
    # references escaping the query closures
    for mac, args in MACROS:
        if mac == "ecs_iter_destroy":
            ret_bad, ret_good = " EcsStepDestroy::Continue", " EcsStepDestroy::Continue"
        else:
            ret_bad = ret_good = ""
        bad = prog("    let mut out: Option<&CompA> = None;\n    %s!(%s|a: &CompA| { out = Some(a);%s });\n    world.destroy(e2);\n    let _ = out.map(|a| a.0);\n" % (mac, args, ret_bad))
        good = prog("    let mut out: Option<u32> = None;\n    %s!(%s|a: &CompA| { out = Some(a.0);%s });\n    world.destroy(e2);\n    let _ = out;\n" % (mac, args, ret_good))
        out.append(dict(name="escape_ref__%s" % mac, bad=bad, good=good, family="borrow"))
        bad = prog("    let mut out: Option<&mut CompA> = None;\n    %s!(%s|a: &mut CompA| { out = Some(a);%s });\n    let _ = out.map(|a| a.0);\n" % (mac, args, ret_bad))
        good = prog("    let mut out: Option<u32> = None;\n    %s!(%s|a: &mut CompA| { a.0 += 1; out = Some(a.0);%s });\n    let _ = out;\n" % (mac, args, ret_good))
        out.append(dict(name="escape_mut_ref__%s" % mac, bad=bad, good=good, family="borrow"))
    # two mutable accesses to one component in one query (compile-time checked macros)
    for mac, args in MACROS:
        if "borrow" in mac:
            continue
        ret = " EcsStepDestroy::Continue" if mac == "ecs_iter_destroy" else ""
        for second, nm in (("&mut CompA", "mut_mut"), ("&CompA", "mut_shared")):
            bad = prog("    %s!(%s|a: &mut CompA, b: %s| { a.0 += 1; let _ = b.0;%s });\n" % (mac, args, second, ret))
            good = prog("    %s!(%s|a: &mut CompA, b: %s| { a.0 += 1; let _ = b.0;%s });\n" % (mac, args, second.replace("CompA", "CompB"), ret))
            out.append(dict(name="same_component_%s__%s" % (nm, mac), bad=bad, good=good, family="borrow"))
    # world access from inside a compile-time checked query closure
    for mac, args in MACROS:
        if "borrow" in mac:
            continue
        ret = " EcsStepDestroy::Continue" if mac == "ecs_iter_destroy" else ""
        bad = prog("    %s!(%s|a: &mut CompA| { a.0 += 1; world.create::<ArchFoo>((CompA(7), CompB(8)));%s });\n" % (mac, args, ret))
        good = prog("    let mut n = 0;\n    %s!(%s|a: &mut CompA| { a.0 += 1; n += 1;%s });\n    for _ in 0..n { world.create::<ArchFoo>((CompA(7), CompB(8))); }\n" % (mac, args, ret))
        out.append(dict(name="structural_change_inside__%s" % mac, bad=bad, good=good, family="borrow"))
    # structural change from inside a runtime-borrowed query closure (shared borrow of the world is held)
    for mac, args in MACROS:
        if "borrow" not in mac:
            continue
        bad = prog("    %s!(%s|a: &CompA| { let _ = a.0; world.destroy(e2); });\n" % (mac, args))
        good = prog("    %s!(%s|a: &CompA| { let _ = a.0; let _ = world.contains(e2); });\n    world.destroy(e2);\n" % (mac, args))
        out.append(dict(name="structural_change_inside__%s" % mac, bad=bad, good=good, family="borrow"))
    # mutable access to an entity-handle parameter
    for mac, args in MACROS:
        ret = " EcsStepDestroy::Continue" if mac == "ecs_iter_destroy" else ""
        for i, ep in enumerate(ENTITY_PARAMS):
            bad = prog("    %s!(%s|h: &mut %s| { let _ = h;%s });\n" % (mac, args, ep, ret))
            good = prog("    %s!(%s|h: &%s| { let _ = h;%s });\n" % (mac, args, ep, ret))
            out.append(dict(name="mut_entity_param_%d__%s" % (i, mac), bad=bad, good=good, family="macro"))
    # overwriting the handle an iteration hands out (read-only slices / items)
    bad = prog("    let s = world.arch_foo.get_all_slices_mut();\n    s.entity[0] = s.entity[1];\n")
    good = prog("    let s = world.arch_foo.get_all_slices_mut();\n    let _x = s.entity[1];\n")
    out.append(dict(name="overwrite_entity_in_slices", bad=bad, good=good, family="borrow"))
    # auto traits
    helper = "fn need_sync<T: Sync>() {}\nfn need_send<T: Send>() {}\nfn need_css<T: Copy + Send + Sync>() {}\n"
    out.append(dict(name="world_is_not_sync", family="trait",
                    bad=PRELUDE + helper + "fn main() { need_sync::<EcsWorld>(); }\n",
                    good=PRELUDE + helper + "fn main() { need_send::<EcsWorld>(); }\n"))
    out.append(dict(name="archetype_is_not_sync", family="trait",
                    bad=PRELUDE + helper + "fn main() { need_sync::<ArchFoo>(); }\n",
                    good=PRELUDE + helper + "fn main() { need_send::<ArchFoo>(); }\n"))
    out.append(dict(name="world_shared_between_threads", family="trait",
                    bad=prog("    let w = &world;\n    std::thread::scope(|s| { s.spawn(|| { let _ = w.contains(e); }); });\n"),
                    good=prog("    std::thread::scope(|s| { s.spawn(move || { let _ = world.contains(e); }); });\n")))
    rc_prelude = PRELUDE.replace("pub struct CompB(pub u32);", "pub struct CompB(pub std::rc::Rc<u32>);")
    out.append(dict(name="world_with_rc_component_is_not_send", family="trait",
                    bad=rc_prelude + helper + "fn main() { need_send::<EcsWorld>(); }\n",
                    good=PRELUDE + helper + "fn main() { need_send::<EcsWorld>(); }\n"))
    out.append(dict(name="world_with_rc_component_moved_to_thread", family="trait",
                    bad=rc_prelude + "fn main() { let world = EcsWorld::new(); std::thread::spawn(move || { let _ = world.arch_foo.len(); }); }\n",
                    good=PRELUDE + "fn main() { let world = EcsWorld::new(); std::thread::spawn(move || { let _ = world.arch_foo.len(); }); }\n"))
    # components whose Send-ness and Sync-ness DIFFER: a world is Send exactly when its components are Send (their
    # Sync-ness is irrelevant), and never Sync
    cell_prelude = PRELUDE.replace("pub struct CompB(pub u32);", "pub struct CompB(pub std::cell::Cell<u32>);")            # Send, !Sync
    guard_prelude = PRELUDE.replace("pub struct CompB(pub u32);", "pub struct CompB(pub std::sync::MutexGuard<'static, u32>);")  # Sync, !Send
    uses_world = "fn main() { let world = EcsWorld::new(); let _ = world.arch_foo.len(); }\n"
    moved = "fn main() { let world = EcsWorld::new(); std::thread::spawn(move || { let _ = world.arch_foo.len(); }).join().unwrap(); }\n"
    for ty in ("EcsWorld", "ArchFoo"):
        out.append(dict(name="send_not_sync_component__%s_is_send_not_sync" % ty, family="trait",
                        bad=cell_prelude + helper + "fn main() { need_sync::<%s>(); }\n" % ty,
                        good=cell_prelude + helper + "fn main() { need_send::<%s>(); }\n" % ty))
        out.append(dict(name="sync_not_send_component__%s_is_not_send" % ty, family="trait",
                        bad=guard_prelude + helper + "fn main() { need_send::<%s>(); }\n" % ty,
                        good=guard_prelude + uses_world))
        out.append(dict(name="sync_not_send_component__%s_is_not_sync" % ty, family="trait",
                        bad=guard_prelude + helper + "fn main() { need_sync::<%s>(); }\n" % ty,
                        good=guard_prelude + uses_world))
    out.append(dict(name="world_moved_to_thread__send_not_sync_vs_sync_not_send_component", family="trait", bad=guard_prelude + moved, good=cell_prelude + moved))
    # reference conversions between handle types (transmutes over repr(transparent) inside the library): the result must not
    # outlive its source, two exclusive results must not coexist
    for src, dst, nm in (("Entity<ArchFoo>", "EntityAny", "entity"), ("EntityDirect<ArchFoo>", "EntityDirectAny", "direct")):
        mk = "world.arch_foo.entities()[0]" if nm == "entity" else "world.to_direct(e).unwrap()"
        out.append(dict(name="ref_conversion_%s__outlives_local" % nm, family="borrow",
                        bad=PRELUDE + "fn leak() -> &'static %s { let mut world = EcsWorld::new(); let e = world.create::<ArchFoo>((CompA(1), CompB(2))); let h: %s = %s; let r: &%s = (&h).into(); r }\nfn main() { let _ = leak(); }\n" % (dst, src, mk, dst),
                        good=PRELUDE + "fn keep() -> %s { let mut world = EcsWorld::new(); let e = world.create::<ArchFoo>((CompA(1), CompB(2))); let h: %s = %s; let r: &%s = (&h).into(); *r }\nfn main() { let _ = keep(); }\n" % (dst, src, mk, dst)))
        out.append(dict(name="ref_conversion_%s__two_exclusive" % nm, family="borrow",
                        bad=prog("    let mut h: %s = %s;\n    let a: &mut %s = (&mut h).into();\n    let b: &mut %s = (&mut h).into();\n    *a = *b;\n" % (src, mk, dst, dst)),
                        good=prog("    let mut h: %s = %s;\n    let a: &mut %s = (&mut h).into();\n    let c = *a;\n    let b: &mut %s = (&mut h).into();\n    *b = c;\n" % (src, mk, dst, dst))))
    # a converted reference to an element of entities() kept across a structural change
    out.append(dict(name="ref_conversion_entities_element__destroy", family="borrow",
                    bad=prog("    let r: &EntityAny = (&world.arch_foo.entities()[0]).into();\n    world.destroy(e2);\n    let _ = r.archetype_id();\n"),
                    good=prog("    let r: &EntityAny = (&world.arch_foo.entities()[0]).into();\n    let _ = r.archetype_id();\n    world.destroy(e2);\n")))
    # the same through a query parameter: the converted reference must not escape the closure
    out.append(dict(name="ref_conversion_query_param__escapes", family="borrow",
                    bad=prog("    let mut out: Option<&EntityAny> = None;\n    ecs_iter!(world, |h: &Entity<ArchFoo>| { out = Some(h.into()); });\n    world.destroy(e2);\n    let _ = out.map(|r| r.archetype_id());\n"),
                    good=prog("    let mut out: Option<EntityAny> = None;\n    ecs_iter!(world, |h: &Entity<ArchFoo>| { let r: &EntityAny = h.into(); out = Some(*r); });\n    world.destroy(e2);\n    let _ = out.map(|r| r.archetype_id());\n")))
    # component names whose snake_case conversion is not trivial (digits, acronyms, underscores): every place that derives a
    # field name from a type name must derive the SAME one. The twin uses such components through all five macros, OneOf,
    # views, borrows and slices; the unsound program asks for the same one twice mutably.
    odd_prelude = ("#![allow(unused, non_camel_case_types)]\n#![forbid(unsafe_code)]\nuse gecs::prelude::*;\n"
                   "pub struct Vec3(pub u32);\npub struct Position2D(pub u32);\npub struct HTTPServer(pub u32);\npub struct Rgba8(pub u32);\npub struct X(pub u32);\npub struct Comp_9z(pub u32);\n"
                   "ecs_world! {\n    ecs_archetype!(Arch1, Vec3, Position2D, HTTPServer);\n    ecs_archetype!(ArchB2, Vec3, Rgba8, Comp_9z, X);\n}\n")
    odd_use = ("fn main() {\n    let mut world = EcsWorld::new();\n    let e = world.create::<Arch1>((Vec3(1), Position2D(2), HTTPServer(3)));\n    let f = world.create::<ArchB2>((Vec3(4), Rgba8(5), Comp_9z(6), X(7)));\n"
               "    let mut n = 0u32;\n"
               "    ecs_iter!(world, |v: &mut Vec3, o: &OneOf<Position2D, Rgba8>| { v.0 += 1; n += o.0; });\n"
               "    ecs_iter_borrow!(world, |v: &Vec3, h: &HTTPServer| { n += v.0 + h.0; });\n"
               "    n += ecs_find!(world, f, |m: &Comp_9z, x: &mut X, r: &Rgba8| { x.0 += 1; m.0 + r.0 }).unwrap();\n"
               "    n += ecs_find_borrow!(world, e, |p: &Position2D, h: &mut HTTPServer| { h.0 += 1; p.0 }).unwrap();\n"
               "    { let v = world.view(e).unwrap(); n += v.component::<Position2D>().0; }\n"
               "    { let b = world.borrow(f).unwrap(); n += b.component::<Comp_9z>().0; }\n"
               "    n += world.arch_1.get_slice::<HTTPServer>()[0].0 + world.arch_b_2.borrow_slice::<Rgba8>()[0].0;\n"
               "    ecs_iter_destroy!(world, |_v: &Vec3, r: &Rgba8| { if r.0 == 5 { EcsStepDestroy::ContinueDestroy } else { EcsStepDestroy::Continue } });\n"
               "    assert!(n > 0 && world.arch_b_2.len() == 0);\n}\n")
    for mac, args in MACROS:
        if "borrow" in mac:
            continue
        ret = " EcsStepDestroy::Continue" if mac == "ecs_iter_destroy" else ""
        margs = args.replace("world, e, ", "world, e, ") if True else args
        bad = odd_prelude + "fn main() {\n    let mut world = EcsWorld::new();\n    let e = world.create::<Arch1>((Vec3(1), Position2D(2), HTTPServer(3)));\n    %s!(%s|a: &mut Vec3, b: &mut Vec3| { a.0 += b.0;%s });\n}\n" % (mac, margs, ret)
        out.append(dict(name="unusual_names__%s" % mac, bad=bad, good=odd_prelude + odd_use, family="borrow"))
    # several worlds in one crate that share their NAME (both left at the default `EcsWorld`), in different modules - the natural
    # way to write a component that is itself a world; everything the world macro exports must be keyed by more than the name.
    # The twin nests queries on the two worlds, clones and destroys; the ill-formed program asks the inner world for a
    # component it does not have.
    two_prelude = ("#![allow(unused)]\n#![forbid(unsafe_code)]\n"
                   "pub mod inner {\n    use gecs::prelude::*;\n    #[derive(Clone)] pub struct Cell(pub u32);\n    #[derive(Clone)] pub struct Tag;\n"
                   "    ecs_world! {\n        ecs_archetype!(ArchCell, Cell);\n        ecs_archetype!(ArchTagged, Cell, Tag);\n    }\n}\n"
                   "pub mod outer {\n    use gecs::prelude::*;\n    #[derive(Clone)] pub struct Grid(pub super::inner::EcsWorld);\n    #[derive(Clone)] pub struct Name(pub u32);\n"
                   "    ecs_world! {\n        ecs_archetype!(ArchRegion, Grid, Name);\n        ecs_archetype!(ArchPlain, Name);\n    }\n"
                   "    pub fn cells(world: &mut EcsWorld, e: Entity<ArchRegion>) -> usize { ecs_find!(world, e, |grid: &Grid| grid.0.arch_cell.len() + grid.0.arch_tagged.len()).unwrap() }\n}\n"
                   "use gecs::prelude::*;\n")
    two_body = ("use inner::{ArchCell, ArchTagged, Cell, Tag};\nuse outer::{ArchPlain, ArchRegion, Grid, Name};\n"
                "fn main() {\n    let mut o = outer::EcsWorld::new();\n    let mut g = inner::EcsWorld::new();\n"
                "    g.create::<ArchCell>((Cell(1),));\n    g.create::<ArchTagged>((Cell(2), Tag));\n"
                "    let r = o.create::<ArchRegion>((Grid(g), Name(7)));\n    o.create::<ArchPlain>((Name(8),));\n"
                "    let mut sum = 0u32;\n"
                "    outer::ecs_iter!(o, |grid: &mut Grid, n: &Name| {\n        let w = &mut grid.0;\n        inner::ecs_iter!(w, |c: &mut Cell| { c.0 += 10; sum += c.0; });\n        sum += n.0;\n    });\n"
                "    let c = o.clone();\n"
                "    let cells = outer::cells(&mut o, r);\n"
                "    let back = o.destroy(r).unwrap();\n"
                "    assert!(sum == 11 + 12 + 7 + 8 && cells == 2 && back.grid.0.arch_cell.len() == 1 && c.arch_region.len() == 1 && o.arch_region.len() == 0);\n%s}\n")
    out.append(dict(name="two_worlds_same_name__nested", family="any",
                    good=two_prelude + two_body % "",
                    bad=two_prelude + two_body % "    { let mut g2 = inner::EcsWorld::new(); inner::ecs_iter!(g2, |n: &Name| { let _ = n.0; }); }\n"))
    # a query that names an archetype which is compiled out, in a parameter that is compiled out with it (the natural way to
    # write feature-dependent code); the unsound twin enables the parameter, which then names a type that does not exist
    gone_prelude = PRELUDE.replace("    ecs_archetype!(ArchBar, CompA);", "    ecs_archetype!(ArchBar, CompA);\n    #[cfg(any())]\n    ecs_archetype!(ArchExtra, CompA);")
    for mac, args in MACROS:
        ret = " EcsStepDestroy::Continue" if mac == "ecs_iter_destroy" else ""
        body = "let _ = a.0;%s" % ret
        good = gone_prelude + "fn main() {\n" + SETUP + "    %s!(%s|a: &CompA, #[cfg(any())] x: &Entity<ArchExtra>| { %s });\n}\n" % (mac, args, body)
        bad = gone_prelude + "fn main() {\n" + SETUP + "    %s!(%s|a: &CompA, #[cfg(all())] x: &Entity<ArchExtra>| { %s });\n}\n" % (mac, args, body)
        out.append(dict(name="cfg_disabled_archetype_named__%s" % mac, bad=bad, good=good, family="any"))
    # the helper types: a runtime-checked Borrow (it reads the RefCell flags of a world that stays usable in the parent thread)
    # must not cross a thread boundary; an exclusive View may, exactly when its components are Send
    out.append(dict(name="borrow_sent_to_thread", family="trait",
                    bad=prog("    let b = world.borrow(e).unwrap();\n    std::thread::scope(|s| { s.spawn(move || { let _ = b.component::<CompA>().0; }); });\n"),
                    good=prog("    let b = world.borrow(e).unwrap();\n    std::thread::scope(|s| { s.spawn(|| { let _ = 1; }); let _ = b.component::<CompA>().0; });\n")))
    out.append(dict(name="archetype_borrow_sent_to_thread", family="trait",
                    bad=prog("    let b = world.arch_foo.borrow(e).unwrap();\n    std::thread::scope(|s| { s.spawn(move || { let _ = b.entity(); }); });\n"),
                    good=prog("    let b = world.arch_foo.borrow(e).unwrap();\n    std::thread::scope(|s| { s.spawn(|| { let _ = 1; }); let _ = b.entity(); });\n")))
    view_thread = "    let mut v = world.view(e).unwrap();\n    std::thread::scope(|s| { s.spawn(move || { let _ = v.component_mut::<CompA>().0; }); });\n"
    out.append(dict(name="view_of_rc_component_sent_to_thread", family="trait",
                    bad=rc_prelude.replace("CompB(pub std::rc::Rc<u32>)", "CompB(pub std::rc::Rc<u32>)") + "fn main() {\n    let mut world = EcsWorld::new();\n    let e = world.create::<ArchFoo>((CompA(1), CompB(std::rc::Rc::new(2))));\n" + view_thread + "}\n",
                    good=prog(view_thread)))
    # the library's own holder types that are built on raw pointers or carry hand-written auto-trait impls (the iterators of
    # Archetype::iter / iter_mut, the all-slices struct): handing one to another thread must be rejected whenever the access it
    # gives would need an auto trait a component lacks - shared access (&C) needs C: Sync, exclusive access (&mut C) needs
    # C: Send. The twin keeps the holder in the parent thread while an unrelated thread runs.
    mk = {"rc": ("std::rc::Rc::new(2)", rc_prelude), "cell": ("std::cell::Cell::new(2)", cell_prelude),
          "guard": ("Box::leak(Box::new(std::sync::Mutex::new(2u32))).lock().unwrap()", guard_prelude)}
    holders = (("iter", "world.arch_foo.iter()", "for _ in h {}", ("rc", "cell")),
               ("iter_mut", "world.arch_foo.iter_mut()", "for _ in h {}", ("rc", "guard")),
               ("all_slices", "world.arch_foo.get_all_slices_mut()", "let _ = h.comp_b.len();", ("rc", "guard")),
               ("world_view", "world.view(e).unwrap()", "let mut h = h; let _ = h.component_mut::<CompA>().0;", ("rc", "guard")),
               ("archetype_view", "world.arch_foo.view(e).unwrap()", "let mut h = h; let _ = h.component_mut::<CompA>().0;", ("rc", "guard")))
    for hname, hexpr, huse, kinds in holders:
        for kind in kinds:
            val, prel = mk[kind]
            head = prel + "fn main() {\n    let mut world = EcsWorld::new();\n    let e = world.create::<ArchFoo>((CompA(1), CompB(%s)));\n    let h = %s;\n" % (val, hexpr)
            out.append(dict(name="%s_of_%s_component_sent_to_thread" % (hname, kind), family="trait",
                            bad=head + "    std::thread::scope(|s| { s.spawn(move || { %s }); });\n}\n" % huse,
                            good=head + "    std::thread::scope(|s| { s.spawn(|| { let _ = 1; }); %s });\n}\n" % huse))
    # handles are Copy + Send + Sync whatever the components are: must compile (paired with the world itself not being Send)
    out.append(dict(name="handles_are_copy_send_sync", family="trait",
                    bad=rc_prelude + helper + "fn main() { need_css::<EcsWorld>(); }\n",
                    good=rc_prelude + helper + "fn main() { need_css::<Entity<ArchFoo>>(); need_css::<EntityAny>(); need_css::<EntityDirect<ArchFoo>>(); need_css::<EntityDirectAny>(); need_css::<SelectEntity>(); need_css::<SelectArchetype>(); need_css::<SelectEntityDirect>(); }\n"))
    # component limit
    n_ok, n_bad = (32, 33) if "32_components" in features else (16, 17)
    def wide(n):
        comps = "".join("pub struct K%d(pub u8);\n" % i for i in range(n))
        return ("#![allow(unused)]\n#![forbid(unsafe_code)]\nuse gecs::prelude::*;\n" + comps + "ecs_world! { ecs_archetype!(Wide, %s); }\nfn main() { let mut w = EcsWorld::new(); w.create::<Wide>((%s,)); }\n"
                % (", ".join("K%d" % i for i in range(n)), ", ".join("K%d(%d)" % (i, i) for i in range(n))))
    out.append(dict(name="component_limit_%d" % n_ok, family="missing", bad=wide(n_bad), good=wide(n_ok)))
    # the event API exists exactly when the feature is on
    ev_use = prog("    let _n = world.iter_created().count() + world.arch_foo.iter_destroyed().count();\n    world.clear_events();\n")
    ev_none = prog("    let _n = world.arch_foo.len();\n")
    if "events" in features:
        out.append(dict(name="event_api_present", family="missing", good=ev_use, bad=prog("    let _n = world.iter_created_nonexistent().count();\n")))
    else:
        out.append(dict(name="event_api_absent", family="missing", good=ev_none, bad=ev_use))
    # keeping an event iterator across a structural change (feature events)
    if "events" in features:
        for which in ("iter_created", "iter_destroyed"):
            bad = prog("    let mut it = world.%s();\n    world.destroy(e2);\n    let _ = it.next();\n" % which)
            good = prog("    {\n        let mut it = world.%s();\n        let _ = it.next();\n    }\n    world.destroy(e2);\n" % which)
            out.append(dict(name="hold_world_%s__destroy" % which, bad=bad, good=good, family="borrow"))
            bad = prog("    let mut it = world.arch_foo.%s();\n    world.clear_events();\n    let _ = it.next();\n" % which)
            good = prog("    {\n        let mut it = world.arch_foo.%s();\n        let _ = it.next();\n    }\n    world.clear_events();\n" % which)
            out.append(dict(name="hold_arch_%s__clear" % which, bad=bad, good=good, family="borrow"))
    return out


def classify(family, messages):
    """messages: list of (code or None, text) for error-level diagnostics of one program."""
    codes = {c for c, _ in messages if c}
    texts = " | ".join(t for _, t in messages)
    if family == "borrow":
        ok = bool(codes & BORROW_FAMILY) or any(t in texts for t in LIFETIME_TEXT)
    elif family == "trait":
        ok = bool(codes & TRAIT_FAMILY)
    elif family == "macro":
        ok = any(t in texts for t in MACRO_TEXT)
    elif family == "any":
        ok = bool(messages)
    elif family == "missing":
        ok = bool(codes & MISSING_FAMILY)
    else:
        ok = False
    return ok, sorted(codes), texts[:300]


def run(features=(), tag="default", only=None):
    """Builds the corpus project against /repo and classifies every program. Returns dict with results."""
    cases = corpus(features)
    if only:
        cases = [c for c in cases if any(c["name"].startswith(o) for o in only)]
    d = os.path.join(WORK, "cx", "%s.%d" % (tag, os.getpid()))
    shutil.rmtree(d, ignore_errors=True)
    os.makedirs(os.path.join(d, "src", "bin"))
    feat = ", features = [%s]" % ", ".join('"%s"' % f for f in features) if features else ""
    open(os.path.join(d, "Cargo.toml"), "w").write(
        '[package]\nname = "cxcorpus"\nversion = "0.0.0"\nedition = "2021"\n\n[dependencies]\ngecs = { path = "%s"%s }\n\n[profile.dev]\ndebug = false\nincremental = false\n\n[workspace]\n' % (REPO, feat))
    shutil.copy(os.path.join(REPO, "Cargo.lock"), os.path.join(d, "Cargo.lock"))
    for i, c in enumerate(cases):
        c["id"] = "c%03d" % i
        open(os.path.join(d, "src", "bin", c["id"] + "_bad.rs"), "w").write(c["bad"])
        open(os.path.join(d, "src", "bin", c["id"] + "_good.rs"), "w").write(c["good"])
    env = env_base()
    env["CARGO_TARGET_DIR"] = os.path.join(TARGET, "cx-" + tag)
    env["RUSTFLAGS"] = "--cfg gecs_verif"
    t0 = time.time()
    p = subprocess.run(["cargo", "check", "--offline", "--bins", "--keep-going", "--message-format=json"], cwd=d, env=env, stdout=subprocess.PIPE, stderr=subprocess.PIPE, text=True)
    errs = {}
    built = set()
    for line in p.stdout.splitlines():
        try:
            m = json.loads(line)
        except Exception:
            continue
        if m.get("reason") == "compiler-message" and m["message"]["level"] == "error":
            t = m["target"]["name"]
            code = (m["message"].get("code") or {}).get("code")
            errs.setdefault(t, []).append((code, m["message"]["message"]))
        if m.get("reason") == "compiler-artifact":
            built.add(m["target"]["name"])
    if "gecs" not in built and not any(k for k in errs):
        raise MachineryError("cx: the corpus project did not build at all:\n" + p.stderr[-1500:])
    results = []
    for c in cases:
        bad_msgs = errs.get(c["id"] + "_bad", [])
        good_msgs = errs.get(c["id"] + "_good", [])
        good_ok = not good_msgs and (c["id"] + "_good") in built
        rejected = bool(bad_msgs)
        fam_ok, codes, texts = classify(c["family"], bad_msgs) if rejected else (False, [], "")
        results.append(dict(name=c["name"], id=c["id"], family=c["family"], twin_compiles=good_ok, twin_errors=[t for _, t in good_msgs][:3],
                            rejected=rejected, family_ok=fam_ok, codes=codes, text=texts, bad=c["bad"], good=c["good"]))
    shutil.rmtree(d, ignore_errors=True)
    return dict(results=results, wall_s=time.time() - t0, programs=2 * len(cases))
