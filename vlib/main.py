import argparse, json, os, sys, time, traceback
from common import *
import hxrun, props


def check_hx(pid, tier, seed):
    legs = props.plan(pid, tier)
    counts = props.counts_for(pid)
    agg = {"states": 0, "transitions": 0, "executions": 0, "generated": 0, "counters": {}, "samples": [], "legs": [], "violations": [], "collateral": {}, "known_hits": {}, "capped": False, "max_depth": 0, "outcomes": {}}
    def _leg(leg):
        san = leg["kw"].get("san")
        if san == "asan":
            # AddressSanitizer build (nightly): an oracle for out-of-bounds / use-after-free on the enumerated executions
            binary = build("hx", leg["profile"], leg["features"], toolchain="nightly", rustflags_extra="-Zsanitizer=address", target_sub="asan", extra_args=("--target=x86_64-unknown-linux-gnu",))
        else:
            binary = build("hx", leg["profile"], leg["features"])
        if san == "miri":
            sc = hxrun.FAMILIES[leg["fam"]]("quick", **{k: v for k, v in leg["kw"].items() if k not in ("san", "miri_depth")})[0]
            sc["props"] = leg["props"]
            jobs, results, wall = hxrun.run_miri_leg(binary, sc, leg["kw"].get("miri_depth", 2), leg["features"])
            bad = 0
            for (jsc, hist), (verdict, detail) in zip(jobs, results):
                if verdict == "ok":
                    continue
                if verdict == "error":
                    raise MachineryError("Miri replay failed to run: %s\nhistory %s" % (detail, json.dumps(hist)))
                bad += 1
                if verdict == "ub":
                    agg["violations"].append({"prop": "CRASH", "oracle": "miri:undefined-behaviour", "msg": "Miri reports undefined behaviour while this history executes: " + detail[:900], "history": hist, "phase": "miri",
                                              "scenario": jsc, "config": "miri", "profile": "miri", "features": list(leg["features"]), "engine": "hx-miri", "extra": {"miri": True}})
                else:
                    for v in detail:
                        rec = dict(v, scenario=jsc, config="miri", profile="chk", features=list(leg["features"]))
                        if counts is None or any(t in counts for t in v["prop"].split(",")):
                            agg["violations"].append(rec)
            agg["executions"] += len(jobs)
            agg["legs"].append({"scenario": sc["name"] + " under Miri", "config": "miri[%s]" % ",".join(leg["features"]), "histories_replayed_under_miri": len(jobs), "all_histories_up_to_depth": leg["kw"].get("miri_depth", 2), "fixed_deeper_histories": len(jobs) - sum(1 for j in jobs if j[0].get("depth") != 12),
                                "unique_states": 0, "transitions": 0, "capped": False, "wall_s": round(wall, 1), "reported": bad})
            log("%s Miri leg: %d histories, %d reported, %.0fs" % (pid, len(jobs), bad, wall))
            return
        if leg["fam"] == "CYCLE":
            # hook-free: 2^32-2 real create/destroy cycles on one position and on two alternating positions
            outp = os.path.join(WORK, "out", "cycle.%d.json" % os.getpid())
            os.makedirs(os.path.dirname(outp), exist_ok=True)
            if os.path.exists(outp):
                os.remove(outp)
            rc, out, err = run([binary, "cycle", "--out", outp], timeout=7200)
            if not os.path.exists(outp):
                raise MachineryError("hx cycle died (rc=%s): %s" % (rc, (err or "")[-800:]))
            o = json.load(open(outp))
            st = o["stats"]
            n = st["cycles_one_position"] + st["cycles_two_positions"]
            agg["executions"] += 2
            agg["transitions"] += 2 * n
            agg["states"] += 2 * n
            agg["counters"]["overflow_panics"] = agg["counters"].get("overflow_panics", 0) + len(st["overflow_messages"])
            agg["legs"].append({"scenario": "2^32 cycles without hooks", "config": o["config"], "cycles_one_position": st["cycles_one_position"], "cycles_two_alternating_positions": st["cycles_two_positions"],
                                "handles_checked_against_predecessor": st["handles_checked"], "boundary_state_equals_H2_preset": st["boundary_dump_equals_h2_preset"], "overflow_messages": st["overflow_messages"],
                                "unique_states": 2 * n, "transitions": 2 * n, "capped": False, "wall_s": round(o["wall_s"], 1)})
            agg["samples"].append({"scenario": "2^32 cycles without hooks", "history": "(Create, Destroy) x 4294967294 on one position, then Destroy must panic with 'slot version overflow'"})
            for v in o["violations"]:
                if v["prop"] == "HX":
                    raise MachineryError("hook H2 does not reproduce the state a real history reaches: " + v["msg"])
                rec = dict(v, scenario={"name": "cycle"}, config=o["config"], profile=leg["profile"], features=list(leg["features"]), history=None, engine="hx-cycle", extra={})
                if counts is None or any(t in counts for t in v["prop"].split(",")):
                    agg["violations"].append(rec)
                else:
                    key = "%s:%s" % (v["prop"], v["oracle"])
                    agg["collateral"][key] = agg["collateral"].get(key, 0) + 1
            log("%s cycle leg: %d cycles, %.0fs" % (pid, n, o["wall_s"]))
            return
        if leg["fam"] == "POP":
            # whole-population sweeps at 2^16+1, 2^20+1 (, 2^24): one scripted history per (size, initial capacity), every handle
            # ever issued looked up through every path after every phase
            sizes = leg["kw"].get("sizes", [65537, 1048577])
            outp = os.path.join(WORK, "out", "pop.%d.json" % os.getpid())
            os.makedirs(os.path.dirname(outp), exist_ok=True)
            if os.path.exists(outp):
                os.remove(outp)
            rc, out, err = run([binary, "population", "--sizes", ",".join(str(x) for x in sizes), "--out", outp], timeout=7200)
            if not os.path.exists(outp):
                raise MachineryError("hx population died (rc=%s): %s" % (rc, (err or "")[-800:]))
            o = json.load(open(outp))
            st = o["stats"]
            if not o["violations"] and (st["full_population_sweeps"] < 9 * 2 * len(sizes) or st["growth_steps"] == 0 or st["refills_without_growth"] == 0):
                raise MachineryError("population leg was vacuous: %s" % st)
            agg["executions"] += st["worlds_built"]
            agg["transitions"] += st["phases"]
            agg["states"] += st["phases"]
            if "events" in leg["features"]:
                if not o["violations"] and st.get("event_log_entries_compared", 0) == 0:
                    raise MachineryError("population leg on the events build compared no event logs")
                agg["counters"]["events_compared"] = agg["counters"].get("events_compared", 0) + st.get("event_log_entries_compared", 0)
            agg["counters"]["population_lookups"] = agg["counters"].get("population_lookups", 0) + st["lookups"] + st["iteration_items"]
            agg["legs"].append({"scenario": "POP/whole-population", "config": "%s[%s]" % (leg["profile"], ",".join(leg["features"])), "population_sizes": sizes, "initial_capacities": ["0 (through growth)", "exactly the population"],
                                "phases_each_followed_by_a_sweep_of_every_issued_handle": st["phases"], "lookups": st["lookups"], "iteration_items": st["iteration_items"], "entities_created": st["entities_created"],
                                "entities_destroyed": st["entities_destroyed"], "refills_without_growth": st["refills_without_growth"], "handles_compared_for_reissue": st["handles_compared_for_reissue"], "event_log_entries_compared": st.get("event_log_entries_compared", 0), "event_size_hints_checked": st.get("event_size_hints_checked", 0),
                                "all_zst_archetype": {"worlds": st.get("zst_worlds", 0), "sweeps": st.get("zst_sweeps", 0), "values_accounted": st.get("zst_values_balanced", 0)},
                                "unique_states": st["phases"], "transitions": st["phases"], "capped": False, "wall_s": round(o["wall_s"], 1)})
            agg["samples"].append({"scenario": "POP/whole-population", "history": ["fill", "overwrite 2/3 (query, slices)", "destroy every third (4 key kinds)", "ecs_iter_destroy! another third", "ecs_iter_destroy! whose closure panics half way (C10)", "refill within capacity", "clone, sweep the clone, empty the clone, sweep the original"]})
            for v in o["violations"]:
                rec = dict(v, scenario={"name": "POP/whole-population", "sizes": sizes}, config="population", profile=leg["profile"], features=list(leg["features"]), history=None, engine="hx-pop", extra={"sizes": sizes})
                if counts is None or any(t in counts for t in v["prop"].split(",")):
                    agg["violations"].append(rec)
                else:
                    key = "%s:%s" % (v["prop"], v["oracle"])
                    agg["collateral"][key] = agg["collateral"].get(key, 0) + 1
            log("%s population leg: sizes %s, %d sweeps, %.1fs" % (pid, sizes, st["full_population_sweeps"], o["wall_s"]))
            return
        if leg["fam"] == "LIMIT":
            # S-H: the 2^24 limit, scripted fill + all operation suffixes up to a depth
            depth = leg["kw"].get("depth", 2)
            outp = os.path.join(WORK, "out", "limit.%d.json" % os.getpid())
            os.makedirs(os.path.dirname(outp), exist_ok=True)
            if os.path.exists(outp):
                os.remove(outp)
            rc, out, err = run([binary, "limit", "--depth", str(depth), "--out", outp], timeout=7200)
            if not os.path.exists(outp):
                raise MachineryError("hx limit died (rc=%s): %s" % (rc, (err or "")[-800:]))
            o = json.load(open(outp))
            st = o["stats"]
            agg["executions"] += st["suffixes"]
            agg["transitions"] += st["suffixes"] * (depth + 2)
            agg["states"] += st["suffixes"]
            for k in ("overflow_panics",):
                agg["counters"][k] = agg["counters"].get(k, 0) + st[k]
            agg["counters"]["limit_reuses_at_2^24"] = st["reuses_at_limit"]
            agg["legs"].append({"scenario": "S-H/2^24-limit", "config": "%s[%s]" % (leg["profile"], ",".join(leg["features"])), "initial_capacities": ["2^24-1", "2^24", "0 (through growth)"], "suffix_depth": depth,
                                "worlds_filled_to_the_limit": st["worlds_built"], "entities_created": st["entities_created"], "unique_states": st["suffixes"], "transitions": st["suffixes"] * (depth + 2), "capped": False, "wall_s": round(o["wall_s"], 1)})
            for s in st["samples"][:1]:
                agg["samples"].append({"scenario": "S-H/2^24-limit", "history": ["fill to 2^24", "Create (must panic)", "CreateWithin (must refuse)"] + s})
            for v in o["violations"]:
                rec = dict(v, scenario={"name": "S-H/2^24-limit", "depth": depth}, config="limit", profile=leg["profile"], features=list(leg["features"]), history=None, engine="hx-limit", extra={"depth": depth})
                if counts is None or any(t in counts for t in v["prop"].split(",")):
                    agg["violations"].append(rec)
                else:
                    key = "%s:%s" % (v["prop"], v["oracle"])
                    agg["collateral"][key] = agg["collateral"].get(key, 0) + 1
            log("%s limit leg: %d suffixes, %.1fs" % (pid, st["suffixes"], o["wall_s"]))
            return
        fam = hxrun.FAMILIES[leg["fam"]]
        kw = dict(leg["kw"])
        kw.pop("san", None)
        env_extra = {"ASAN_OPTIONS": "detect_leaks=0:abort_on_error=0:halt_on_error=1:exitcode=77"} if san else None
        hxrun.REPLAY_ENV = env_extra or {}
        if leg["fam"] == "SC" and "32_components" in leg["features"]:
            kw["narch"] = 32
        scenarios = fam(tier, **kw)
        config = "%s[%s]%s" % (leg["profile"], ",".join(leg["features"]), "+asan" if san else "")
        if not san and "stateright_crosscheck" not in agg and scenarios:
            # Independent explorer: stateright's BFS over the same model must report the same number of unique states and
            # transitions as the level-synchronous BFS (reduced depth in the quick tier: stateright is effectively serial here).
            sc0 = dict(scenarios[0])
            sc0["props"] = leg["props"]
            sc0["depth"] = max(2, sc0["depth"] - (3 if tier == "quick" else 2))
            a = hxrun.run_leg(binary, sc0, config, dfs_check_depth=0, mode="pbfs")
            b = hxrun.run_leg(binary, sc0, config, dfs_check_depth=0, mode="stateright", threads=4)
            ka = (a["stats"]["unique_states"], a["stats"]["transitions"])
            kb = (b["stats"]["unique_states"], b["stats"]["transitions"])
            if not a["violations"] and not b["violations"] and not a["crashed"] and not b["crashed"]:
                if ka != kb:
                    raise MachineryError("explorer cross-check failed on %s depth %d: own BFS %s vs stateright %s (unique states, transitions)" % (sc0["name"], sc0["depth"], ka, kb))
                agg["stateright_crosscheck"] = {"scenario": sc0["name"], "depth": sc0["depth"], "unique_states": ka[0], "transitions": ka[1], "agree": True, "stateright_wall_s": round(b["wall_s"], 2)}
            else:
                agg["stateright_crosscheck"] = {"scenario": sc0["name"], "skipped": "violations present"}
        for sc in scenarios:
            sc["props"] = leg["props"]
            limit = None if tier == "quick" else int(os.environ.get("VERIF_LEG_SECONDS", "1500"))
            r = hxrun.run_leg(binary, sc, config, dfs_check_depth=(0 if san else (2 if tier == "quick" else 3) if "C03" in (leg["props"] or []) else 3 if tier == "quick" else 4), max_seconds=limit, env_extra=env_extra)
            st = r["stats"]
            agg["states"] += st["unique_states"]
            agg["generated"] += st["generated_states"]
            agg["transitions"] += st["transitions"]
            agg["executions"] += st["executions"]
            agg["capped"] |= bool(st["capped"])
            agg["max_depth"] = max(agg["max_depth"], st["max_depth"])
            for k, v in (r.get("counters") or {}).items():
                if k == "known_findings":
                    for kk, vv in v.items():
                        agg["known_hits"][kk] = agg["known_hits"].get(kk, 0) + vv
                elif k == "max_generation_delta":
                    agg["counters"][k] = max(agg["counters"].get(k, 0), v)
                else:
                    agg["counters"][k] = agg["counters"].get(k, 0) + v
            for k, v in (r.get("outcomes") or {}).items():
                agg["outcomes"][k] = agg["outcomes"].get(k, 0) + v
            for s in (r.get("samples") or [])[:1]:
                if len(agg["samples"]) < 8:
                    agg["samples"].append({"scenario": sc["name"], "config": config, "history": s})
            agg["legs"].append({"scenario": sc["name"], "config": config, "archs": sc["archs"], "caps": sc["caps"], "max_live": sc["max_live"], "depth": sc["depth"],
                                "unique_states": st["unique_states"], "transitions": st["transitions"], "max_depth_completed": st["max_depth"] if not st["capped"] else max(0, st["max_depth"] - 1),
                                "capped": st["capped"], "wall_s": round(r["wall_s"], 2), "dfs_crosscheck": r.get("dfs_crosscheck")})
            agg.setdefault("unconfirmed", []).extend(r.get("unconfirmed", []))
            for v in r["violations"]:
                if v["prop"] == "HX":
                    raise MachineryError("harness failure in %s: %s\nhistory: %s" % (sc["name"], v["msg"], json.dumps(v["history"])))
                rec = dict(v, scenario=sc, config=config, profile=leg["profile"], features=list(leg["features"]))
                if counts is None or any(t in counts for t in v["prop"].split(",")):
                    agg["violations"].append(rec)
                else:
                    key = "%s:%s" % (v["prop"], v["oracle"])
                    agg["collateral"][key] = agg["collateral"].get(key, 0) + 1
            log("%s %s %s: %d states, %d transitions, %.1fs%s" % (pid, config, sc["name"], st["unique_states"], st["transitions"], r["wall_s"], " CAPPED" if st["capped"] else ""))

    # A leg that fails for machinery reasons must not take the verdicts of the other legs with it: failures are collected
    # and only become the result of the check when no leg found a violation.
    deferred = []
    for leg in legs:
        try:
            _leg(leg)
        except MachineryError as e:
            deferred.append("%s leg: %s" % (leg["fam"], e))
            log("leg %s failed for machinery reasons: %s" % (leg["fam"], str(e)[:300]))
    if deferred:
        if not agg["violations"]:
            raise MachineryError(deferred[0])
        agg["leg_failures"] = deferred
    return agg


def finish(pid, tier, seed, level, agg, t0, extra_cov=None, assumptions=None):
    """Applies known findings, prints verdict lines, writes evidence, returns the exit code."""
    known = known_entries(pid, "known")
    out_lines = []
    new_viol = []
    for v in agg["violations"]:
        # hx only lets a known signature pass silently when it is listed; anything that arrives here is unlisted
        new_viol.append(v)
    # KNOWN-FINDING lines: listed findings of THIS property that this run actually hit
    for k in known:
        key = "%s:%s" % (k["property"], k["signature"])
        if agg["known_hits"].get(key):
            out_lines.append("KNOWN-FINDING: property=%s %s [%s, hit %d times]" % (pid, k["what"], k["signature"], agg["known_hits"][key]))
    rc = 0
    seen_sig = set()
    for v in new_viol:
        sig = (v["prop"], v["oracle"])
        if sig in seen_sig:
            continue
        seen_sig.add(sig)
        path = save_replay(pid, {"engine": v.get("engine", "hx"), "scenario": v.get("scenario"), "profile": v.get("profile"), "features": v.get("features"),
                                 "history": v.get("history"), "violated_oracle": "%s:%s" % (v["prop"], v["oracle"]), "observed": v["msg"], "phase": v.get("phase"),
                                 "extra": v.get("extra")})
        out_lines.append("VIOLATION property=%s replay=%s" % (pid, path))
        out_lines.append("  oracle %s:%s  %s" % (v["prop"], v["oracle"], v["msg"][:600]))
        rc = 1
    cov = {}
    if level == "model_checking":
        if agg["states"] >= 1 and agg["transitions"] >= 1:
            cov.update({"states": agg["states"], "transitions": agg["transitions"], "traces_validated_against_impl": agg["transitions"]})
        else:
            # every exploration was cut in its initial state (a violation before the first transition): there is no graph to report
            cov.update({"states_reached": max(agg["states"], 0), "transitions_executed": max(agg["transitions"], 0)})
    cov.update({"evaluations": max(agg.get("executions", 0), agg.get("evaluations", 0)), "distinct_nontrivial": agg.get("distinct_nontrivial", agg["states"]),
                "rule": agg.get("rule", "every operation history up to the depth bound is executed from scratch on the real implementation; distinct = distinct canonical (representation, model) states at distinct depths; non-trivial = all of them except the initial empty state, which is not counted separately"),
                "samples": agg["samples"][:8] or [{"note": "no sample recorded"}],
                "exhaustive": not agg.get("capped", False),
                "bounds": agg.get("legs", []),
                "vacuity_counters": agg.get("counters", {}),
                "outcomes": agg.get("outcomes", {}),
                "known_findings_hit": agg.get("known_hits", {}),
                "other_property_oracles_failed": agg.get("collateral", {}),
                "observations_not_replaying_deterministically": agg.get("unconfirmed", [])[:5],
                "stateright_crosscheck": agg.get("stateright_crosscheck"),
                "explanation": agg.get("explanation", "")})
    if extra_cov:
        cov.update(extra_cov)
    ev = {"property_id": pid, "tier": tier, "seed": seed, "level": level, "coverage": cov,
          "assumptions": assumptions or [props.HX_NOTE], "wall_s": round(time.time() - t0, 2), "violations": len(seen_sig)}
    try:
        validate_evidence(ev)
    except MachineryError as e:
        # A run that was cut short by a violation may have covered too little for the schema's minimum counts; the verdict
        # must not be lost over that. Without a violation an invalid evidence file is a machinery failure.
        if not rc:
            raise
        log("evidence of this violated run does not meet the schema's minimum counts: %s" % str(e).strip().splitlines()[-1][:200])
    write_json(os.path.join(EVIDENCE, "%s.json" % pid), ev)
    # a per-tier copy is kept as well, so that a quick run does not erase what the last thorough run covered
    write_json(os.path.join(EVIDENCE, tier, "%s.json" % pid), ev)
    for l in out_lines:
        print(l)
    print("%s %s: %s (%d states, %d transitions, %d evaluations, %.0fs)" % (pid, tier, "VIOLATED" if rc else "held on everything explored", agg["states"], agg["transitions"], cov["evaluations"], time.time() - t0))
    return rc


def cmd_check(pid, tier):
    seed = int(os.environ.get("VERIF_SEED", "0"))
    t0 = time.time()
    try:
        if pid == "C03":
            import others
            return others.check_c03(tier, seed, t0)
        if pid in props.META:
            level = props.META[pid][0]
            agg = check_hx(pid, tier, seed)
            import others
            others.wx_into(agg, pid, tier)
            if not agg["violations"]:
                if agg.get("unconfirmed"):
                    raise MachineryError("violations were observed that do not replay deterministically, and nothing else was found: " + " | ".join(agg["unconfirmed"][:3]))
                props.vacuity(pid, agg)
            return finish(pid, tier, seed, level, agg, t0)
        import others
        return others.check(pid, tier, seed, t0)
    except MachineryError as e:
        print("MACHINERY-ERROR property=%s %s" % (pid, e))
        return 2
    except Exception:
        traceback.print_exc()
        print("MACHINERY-ERROR property=%s unexpected exception in the driver" % pid)
        return 2


def cmd_replay(path):
    rp = json.load(open(path))
    if rp.get("engine") == "hx-miri":
        verdict, detail = hxrun.miri_replay(rp["scenario"], rp["history"], tuple(rp.get("features") or ()))
        print(verdict, detail if isinstance(detail, str) else json.dumps(detail, indent=1))
        return 0 if verdict == "ok" else 1
    if rp.get("engine") == "hx-cycle":
        binary = build("hx", rp["profile"], tuple(rp.get("features") or ()))
        outp = os.path.join(WORK, "out", "cycle-replay.json")
        rc, out, err = run([binary, "cycle", "--out", outp], timeout=7200)
        print(open(outp).read() if os.path.exists(outp) else err)
        return 1 if rc != 0 else 0
    if rp.get("engine") == "hx-pop":
        binary = build("hx", rp["profile"], tuple(rp.get("features") or ()))
        outp = os.path.join(WORK, "out", "pop-replay.json")
        rc, out, err = run([binary, "population", "--sizes", ",".join(str(x) for x in (rp.get("extra") or {}).get("sizes", [65537])), "--out", outp], timeout=7200)
        print(open(outp).read() if os.path.exists(outp) else err)
        return 1 if rc != 0 else 0
    if rp.get("engine") == "hx-limit":
        binary = build("hx", rp["profile"], tuple(rp.get("features") or ()))
        outp = os.path.join(WORK, "out", "limit-replay.json")
        rc, out, err = run([binary, "limit", "--depth", str((rp.get("extra") or {}).get("depth", 2)), "--out", outp], timeout=7200)
        print(open(outp).read() if os.path.exists(outp) else err)
        return 1 if rc != 0 else 0
    if rp.get("engine", "hx") == "hx":
        binary = build("hx", rp["profile"], tuple(rp.get("features") or ()))
        rc, out, err = hxrun.replay_once(binary, rp["scenario"], rp["history"])
        print(out)
        if rc not in (0, 1):
            print("process died with rc=%s\n%s" % (rc, err[-2000:]))
        # the same history as a plain test function
        test = ("// Drop this file into /verif/engines/hx/tests/ and run: cargo test -p hx --profile %s --test <name>\n"
                "use hx::explore::*; use hx::sys::*; use std::sync::Arc;\n#[test]\nfn replay() {\n"
                "    let sc: Scenario = serde_json::from_str(r#\"%s\"#).unwrap();\n    let hist: Vec<Op> = serde_json::from_str(r#\"%s\"#).unwrap();\n"
                "    let sh = Shared::new(sc, Arc::new(Vec::new()), false, None, u64::MAX);\n    let st = execute(&sh, &hist);\n"
                "    assert!(!st.bad, \"{:?}\", sh.found.lock().unwrap());\n}\n") % (rp["profile"], json.dumps(rp["scenario"]), json.dumps(rp["history"]))
        tp = path[:-5] + ".rs"
        open(tp, "w").write(test)
        print("unit-test form written to", tp)
        return 1 if rc != 0 else 0
    import others
    return others.replay(rp)


def main(argv):
    ap = argparse.ArgumentParser(prog="verif")
    sub = ap.add_subparsers(dest="cmd")
    c = sub.add_parser("check"); c.add_argument("pid"); c.add_argument("--tier", default=os.environ.get("VERIF_TIER", "quick"), choices=["quick", "thorough"])
    r = sub.add_parser("replay"); r.add_argument("path")
    sub.add_parser("build")
    sub.add_parser("manifest")
    s = sub.add_parser("selftest"); s.add_argument("names", nargs="*"); s.add_argument("--jobs", type=int, default=1)
    a = ap.parse_args(argv)
    os.makedirs(WORK, exist_ok=True)
    if a.cmd == "check":
        return cmd_check(a.pid, a.tier)
    if a.cmd == "replay":
        return cmd_replay(a.path)
    if a.cmd == "build":
        import others
        return others.build_all()
    if a.cmd == "manifest":
        import manifest
        return manifest.write()
    if a.cmd == "selftest":
        import selftest
        return selftest.run(a.names, a.jobs)
    ap.print_help()
    return 2
