"""Per-property check plans: which engine legs decide the property in which tier, the level claimed,
and the vacuity guards that make a run that exercised nothing fail as a machinery error."""
from common import *

HX_NOTE = ("trusted base: rustc/std, stateright's BFS, the 128-bit canonical key (64-bit fingerprint inside stateright), "
           "hooks H1/H2 (cfg gecs_verif), the harness' reference model; bounds as listed in coverage.bounds")

PLANS = {
    # id: (level, design_ref, technique, text, [legs quick], [legs thorough])
}


def hx_leg(fam, profile="chk", features=(), props=None, **kw):
    return dict(engine="hx", fam=fam, profile=profile, features=tuple(features), props=props, kw=kw)


def plan(pid, tier):
    legs = _plan(pid, tier)
    # the 17-/24-/32-column archetypes (build with 32_components): heap-owning, zero-sized Drop and tracked types as last columns
    if pid in ("C01", "C02", "C04", "C06", "C07", "C09", "C12", "C13"):
        legs.append(hx_leg("SC32", features=("32_components",), props=[pid] + (["C01", "C02"] if pid == "C13" else []), **(dict(drop_world=True) if pid in ("C04", "C13") else {})))
    # whole-population sweeps at sizes straddling 2^16 and 2^20 (thorough: 2^24 too): index-width and size-threshold behaviour
    if pid in ("C01", "C02", "C04", "C06", "C07", "C08", "C10", "C12", "C13"):
        legs.append(hx_leg("POP", sizes=[65537, 1048577] + ([] if tier == "quick" else [16777216])))
    # the same at scale on the events build: logs with more than 2^16 / 2^20 entries, exact size_hint, clears, clone
    if pid in ("C17", "C13", "C10"):
        legs.append(hx_leg("POP", features=("events",), sizes=[65537, 1048577]))
    return legs


def _plan(pid, tier):
    q = tier == "quick"
    if pid == "C01":
        return [hx_leg("SA", props=["C01"]), hx_leg("SB", props=["C01"]), hx_leg("SD", props=["C01"]), hx_leg("SP", props=["C01"]), hx_leg("SC", features=("wide",), props=["C01"])]
    if pid == "C02":
        return [hx_leg("SA", props=["C02"], **(dict(L=3, D=8) if q else dict(L=4, D=10))), hx_leg("SB", props=["C02"], **(dict(D=6) if q else dict(D=8))), hx_leg("SC", features=("wide",), props=["C02"]), hx_leg("SP", props=["C02"]),
                # "... or cloning the world never changes them": clone from every reachable state, both worlds read and written afterwards
                hx_leg("SD", props=["C02"], **(dict(L=2, D=6) if q else dict(L=3, D=7)))]
    if pid == "C03":
        sa = dict(L=3, D=7) if q else dict(L=4, D=9)
        sb = dict(D=6) if q else dict(D=7)
        sd = dict(L=2, D=6) if q else dict(L=3, D=7)
        legs = [hx_leg("SAN", profile="rel", props=["C03", "C01", "C02", "C09"], san="asan"), hx_leg("SA", props=["C03"], **sa), hx_leg("SA", profile="rel", props=["C03"], **sa), hx_leg("SB", props=["C03"], **(dict(D=5) if q else dict(D=6))), hx_leg("SB", profile="rel", props=["C03"], **sb),
                hx_leg("SD", profile="rel", props=["C03"], **sd)]
        if not q:
            legs.append(hx_leg("SAN", props=["C03", "C01", "C09"], san="miri", miri_depth=2))
        return legs
    if pid == "C04":
        return [hx_leg("SA", props=["C04"], drop_world=True), hx_leg("SD", props=["C04"], drop_world=True), hx_leg("SC", features=("wide",), props=["C04"], drop_world=True), hx_leg("SP", props=["C04"], drop_world=True)] + \
               ([] if q else [hx_leg("SAN", profile="rel", props=["C04", "C02"], san="asan", drop_world=True), hx_leg("SAN", props=["C04", "C02", "C01"], san="miri", miri_depth=2, drop_world=True)])
    if pid == "C06":
        return [hx_leg("SA", props=["C06"]), hx_leg("SB", props=["C06"]), hx_leg("SP", props=["C06"]), hx_leg("SC", features=("wide",), props=["C06"])]
    if pid == "C07":
        return [hx_leg("SA", props=["C07"]), hx_leg("SB", props=["C07"]), hx_leg("SP", props=["C07"]), hx_leg("SC", features=("wide",), props=["C07"])]
    if pid == "C08":
        return [hx_leg("SA", props=["C08"]), hx_leg("SB", props=["C08"]), hx_leg("SD", props=["C08"]), hx_leg("SE", props=["C08"]), hx_leg("SP", props=["C08"])] + \
               ([] if q else [hx_leg("CYCLE", profile="rel"), hx_leg("LIMIT", depth=2)])
    if pid == "C09":
        return [hx_leg("SA", props=["C09"], **(dict(L=3, D=8) if q else dict(L=5, D=10))), hx_leg("SB", props=["C09"], **(dict(D=6) if q else dict(D=8))), hx_leg("SP", props=["C09"]), hx_leg("SC", features=("wide",), props=["C09"])]
    if pid == "C10":
        # the same fault / overflow histories on the events build: the logs are part of "every other property still holds"
        return [hx_leg("SF", props=["C10", "C01", "C02", "C04", "C06", "C09", "C12"]), hx_leg("SE", props=["C10", "C01", "C04", "C12"]),
                hx_leg("SF", features=("events",), props=["C10", "C17", "C01", "C04", "C12"]), hx_leg("SE", features=("events",), props=["C10", "C17", "C01", "C04", "C12"])] + ([] if q else [hx_leg("LIMIT", depth=2), hx_leg("SAN", profile="rel", props=["C10", "C01", "C02", "C04"], san="asan"), hx_leg("SF", props=["C10", "C01", "C04"], san="miri", miri_depth=2)])
    if pid == "C12":
        return [hx_leg("SA", props=["C12"]), hx_leg("SB", props=["C12"]), hx_leg("SP", props=["C12"]), hx_leg("LIMIT", depth=2 if q else 4)]
    if pid == "C13":
        return [hx_leg("SD", props=["C13", "C01", "C02", "C06", "C09", "C12"], drop_world=True, **(dict(L=3, D=7) if q else dict(L=3, D=9))),
                hx_leg("SP", props=["C13", "C01", "C02", "C06", "C09", "C12"], drop_world=True, max_clones=1, key_kinds=[0, 3], vias=["World"]),
                # "the same pending events": the clone family and the events family (clears, clone) on the events build, event-log oracle on both worlds
                hx_leg("SD", features=("events",), props=["C13", "C17", "C01", "C02"], **(dict(L=2, D=6) if q else dict(L=3, D=7))),
                hx_leg("SG", features=("events",), props=["C13", "C17"])] + \
               ([] if q else [hx_leg("SD", props=["C13", "C01", "C02"], san="miri", miri_depth=2)])
    if pid == "C17":
        # S-E / S-F on the events build: a destroy that panics (generation overflow, panicking Drop) must not be logged
        return [hx_leg("SG", features=("events",), props=["C17"]), hx_leg("SE", features=("events",), props=["C17", "C10"]), hx_leg("SF", features=("events",), props=["C17", "C10"])]
    raise KeyError(pid)


# property id -> tags of violations that count for it. A leg evaluates other properties' oracles too
# (the lockstep comparison is always on); those are reported as collateral, not as this property's verdict.
def counts_for(pid):
    m = {
        # C10: "the world is left in a state in which every other property still holds": after a fault every oracle counts
        "C10": None,
        # C13: the clone must answer every query like the original and evolve independently: every oracle counts on S-D
        "C13": None,
        # C19: every other property must hold unchanged in every configuration
        "C19": None,
    }
    return m.get(pid, {pid, "CRASH"})


META = {
    "C01": ("model_checking", "3/C01", "explicit-state BFS over operation histories on the real generated world (own level-synchronous BFS; stateright and a plain DFS as cross-checks), every issued handle probed through every lookup path after every transition"),
    "C02": ("model_checking", "3/C02", "explicit-state BFS over histories interleaved with writes through every mutable path; every read path compared with a reference map; arities 1..16"),
    "C03": ("model_checking", "3/C03", "explicit-state BFS; in every reached state an exhaustive universe of forged/foreign handle values is pushed through every safe API (debug-assertion and release builds)"),
    "C04": ("model_checking", "3/C04", "explicit-state BFS with a drop/clone registry; the world is dropped at every explored state"),
    "C06": ("model_checking", "3/C06", "explicit-state BFS; every iteration API and every Break position evaluated in every reached state"),
    "C07": ("model_checking", "3/C07", "explicit-state BFS in which all 4^n ecs_iter_destroy! decision functions are transitions"),
    "C08": ("model_checking", "3/C08", "explicit-state BFS with a world-wide issued-handle set, including histories across the 2^32 generation boundary (hook H2)"),
    "C09": ("model_checking", "3/C09", "explicit-state BFS with inductive per-transition validity of every direct handle plus a per-state (index, version) universe"),
    "C10": ("fault_enumeration", "3/C10", "explicit-state BFS in which a panic at every callback / overflow point is a transition, followed by continued exploration with all oracles"),
    "C12": ("model_checking", "3/C12", "explicit-state BFS from every small initial capacity; len/capacity arithmetic and refill-to-capacity in every state"),
    "C13": ("model_checking", "3/C13", "explicit-state BFS with clone as a transition; two independent reference models; equal representation at the split"),
    "C17": ("model_checking", "3/C17", "explicit-state BFS on the events build; event multisets and exact size_hint at every iterator prefix in every state"),
}


def vacuity(pid, agg):
    """Raises MachineryError if the exploration did not exercise what the property is about."""
    c = agg["counters"]
    def need(key, why):
        if not c.get(key):
            raise MachineryError("vacuous run for %s: counter %s is zero (%s)" % (pid, key, why))
    if pid in ("C01", "C08", "C12", "C02", "C04", "C06", "C07", "C09"):
        need("slot_reuses", "no storage position was ever reused")
        need("grows", "the storage never grew")
        need("swap_removes_nonlast", "no removal ever relocated another entity")
    if pid == "C01":
        need("stale_probes", "no stale handle was ever probed")
    if pid == "C03":
        need("forged_probes", "no forged handle was presented")
        need("forged_accepted_identical", "the universe never contained a value bit-identical to a live handle")
    if pid == "C07":
        need("iter_destroy_runs", "ecs_iter_destroy! never ran")
        need("iter_destroy_breaks", "no Break decision was ever taken")
    if pid == "C08" :
        need("overflow_panics", "the generation boundary was never crossed")
    if pid == "C09":
        need("direct_died", "no direct handle was ever invalidated")
        need("direct_survived", "no direct handle ever survived a step")
    if pid == "C10":
        need("faults_fired", "no injected fault ever fired")
        need("overflow_panics", "no overflow panic was ever raised")
    if pid == "C13":
        need("clones", "clone() was never called")
    if pid == "C17":
        need("events_compared", "event logs were never compared")
    if pid == "C02":
        need("writes", "no component write was performed")
