"""Engine hx: scenario families (bounds per tier) and the runner for one exploration leg."""
import glob, json, os, shutil, struct, time
from common import *

# archetype indices in the harness world: One=0 (1 column), Two=1, Thr=2 (Key, Zed, Pad), Fou=3 ...
ONE, TWO, THR, FOU = 0, 1, 2, 3
# archetypes with permuted column orders in the narrow world: Zfr = (Zed, Key, Pad), Pfr = (Pad, Zno, Big, Key)
ZFR, PFR = 4, 5


def scen(name, archs, caps, L, D, **kw):
    s = {"name": name, "archs": archs, "caps": caps, "max_live": L, "depth": D, "props": []}
    s.update(kw)
    return s


def fam_SA(tier, L=None, D=None, **kw):
    """Single archetype churn + growth from every small initial capacity."""
    L0, D0, n = (4, 9, 3) if tier == "quick" else (6, 12, 4)
    L, D = L or L0, D or D0
    caps = [0, 1, 2, 3] if tier == "quick" else [0, 1, 2, 3, 4]
    out = [scen("S-A/cap%d" % c, [THR], [c], L, D, iter_destroy=[THR], iter_destroy_max_n=n, **kw) for c in caps]
    # the other constructors of an empty world: World::new(), Default::default(), mem::take
    # populations of up to 7 rows with a small alphabet (typed destroy through the world, no queries as transitions): what
    # depends on the NUMBER of rows (unrolled / chunked loops in iterators, growth steps) needs more than a handful
    out.append(scen("S-A/rows7", [THR], [0], 7, 8 if tier == "quick" else 10, iter_destroy=[], key_kinds=[0], vias=["World"], create_within=False, **kw))
    for ctor, nm in ((1, "new"), (2, "default"), (3, "take")):
        out.append(scen("S-A/%s" % nm, [THR], [0], L - 1, D - 2, iter_destroy=[THR], iter_destroy_max_n=2, ctor=ctor, **kw))
    return out


def fam_SB(tier, L=None, D=None, **kw):
    """Two (thorough: three) archetypes: world-level dispatch, multi-archetype queries."""
    if tier == "quick":
        # the second scenario uses the archetype with id 200 (ids >= 128 in the handle's archetype byte)
        return [scen("S-B/caps00", [ONE, THR], [0, 0], L or 2, D or 7, iter_destroy=[100, 101, 102], iter_destroy_max_n=3, **kw),
                scen("S-B/id200/caps21", [ONE, FOU], [2, 1], L or 2, D or 7, iter_destroy=[100, 101, 102], iter_destroy_max_n=3, **kw)]
    out = [scen("S-B/caps%s" % "".join(map(str, c)), [ONE, THR], c, L or 3, D or 9, iter_destroy=[100, 101, 102], iter_destroy_max_n=4, **kw) for c in ([0, 0], [2, 1], [0, 3])]
    out.append(scen("S-B3/caps000", [ONE, THR, FOU], [0, 0, 0], 2, (D or 9) - 1, iter_destroy=[100, 102], iter_destroy_max_n=4, **kw))
    return out


def fam_SC(tier, narch=16, **kw):
    """Every archetype arity alone (wide world): all storage arities, ZST / aligned / heap columns."""
    L, D = (2, 5) if tier == "quick" else (3, 7)
    out = []
    for a in range(narch):
        for c in ([1] if tier == "quick" else [0, 1]):
            out.append(scen("S-C/arity%d/cap%d" % (a + 1, c), [a], [c], L, D, iter_destroy=[a], iter_destroy_max_n=2, key_kinds=[0, 1, 3], **kw))
    return out


def fam_SD(tier, L=None, D=None, **kw):
    """Clone from every reachable state, then diverging histories on either world."""
    if tier == "quick":
        return [scen("S-D2/caps01", [ONE, THR], [0, 1], 2, min(D or 7, 6), max_clones=1, iter_destroy=[100], iter_destroy_max_n=2, key_kinds=[0, 3], vias=["World"], **kw)] + \
               [scen("S-D/cap%d" % c, [THR], [c], L or 3, D or 7, max_clones=1, iter_destroy=[THR], iter_destroy_max_n=2, key_kinds=[0, 3], vias=["World"], **kw) for c in (0, 2)]
    return [scen("S-D2/caps01", [ONE, THR], [0, 1], 2, 8, max_clones=1, iter_destroy=[100, THR], iter_destroy_max_n=3, key_kinds=[0, 3], vias=["World"], **kw)] + \
           [scen("S-D/cap%d" % c, [THR], [c], L or 3, D or 9, max_clones=(2 if c == 0 else 1), iter_destroy=[THR], iter_destroy_max_n=3, key_kinds=[0, 3], vias=["World"], **kw) for c in (0, 2, 3)]


def fam_SE(tier, **kw):
    """Generations preset (hook H2) just below 2^32-1: histories across the overflow boundary."""
    L, D = (2, 7) if tier == "quick" else (3, 9)
    presets = [(MAXV - 1, 7), (7, MAXV - 2), (MAXV - 1, MAXV - 2), (MAXV, MAXV)]
    out = []
    nm = lambda v: ("max%d" % (v - MAXV)) if v > 1000 else str(v)
    for (sg, ag) in presets:
        for c in ([2] if tier == "quick" else [1, 2]):
            out.append(scen("S-E/slot-%s/arch-%s/cap%d" % (nm(sg), nm(ag), c), [THR], [c], L, D, preset=[sg, ag], iter_destroy=[THR], iter_destroy_max_n=2, key_kinds=[0, 1, 3], **kw))
    return out


def fam_SF(tier, **kw):
    """Fault actions (a panic at every callback point) followed by continued exploration."""
    common = dict(iter_destroy=[THR], iter_destroy_max_n=2, key_kinds=[0, 1], vias=["World"], create_within=False)
    if tier == "quick":
        return [scen("S-F/cap%d" % c, [THR], [c], 3, 7, max_faults=1, max_clones=0, **common, **kw) for c in (0, 2)] + \
               [scen("S-F/2faults/cap0", [THR], [0], 2, 6, max_faults=2, max_clones=0, **common, **kw),
                scen("S-F2/caps00", [ONE, THR], [0, 0], 2, 5, max_faults=1, iter_destroy=[100], iter_destroy_max_n=2, key_kinds=[0, 1], vias=["World"], create_within=False, **kw)]
    out = [scen("S-F/cap%d" % c, [THR], [c], 3, 8, max_faults=2, max_clones=1, **common, **kw) for c in (0, 2)]
    out.append(scen("S-F2/caps00", [ONE, THR], [0, 0], 2, 7, max_faults=1, iter_destroy=[100], iter_destroy_max_n=2, key_kinds=[0, 1], vias=["World"], create_within=False, **kw))
    return out


def fam_SG(tier, **kw):
    """Events (feature events): both creation paths, all destroy kinds, clears at arbitrary points."""
    if tier == "quick":
        return [scen("S-G/caps%s" % "".join(map(str, c)), [ONE, THR], c, 2, 5, clear_events=True, iter_destroy=[100], iter_destroy_max_n=2, **kw) for c in ([0, 0],)] + \
               [scen("S-G1/cap2", [THR], [2], 2, 6, clear_events=True, max_clones=1, iter_destroy=[THR], iter_destroy_max_n=2, key_kinds=[0, 1, 2, 3], **kw)]
    return [scen("S-G/caps%s" % "".join(map(str, c)), [ONE, THR], c, 2, 7, clear_events=True, iter_destroy=[100, THR], iter_destroy_max_n=3, **kw) for c in ([0, 0], [2, 1])] + \
           [scen("S-G1/cap%d" % c, [THR], [c], 3, 7, clear_events=True, max_clones=1, iter_destroy=[THR], iter_destroy_max_n=3, **kw) for c in (0, 2)] + \
           [scen("S-G3/caps000", [ONE, THR, FOU], [0, 0, 0], 2, 6, clear_events=True, iter_destroy=[100], iter_destroy_max_n=2, key_kinds=[0, 3], **kw)]


def fam_SAN(tier, **kw):
    """Small explorations for the sanitizer builds (the sanitizer is an oracle on the enumerated executions, not a search)."""
    if tier == "quick":
        return [scen("S-A/cap1", [THR], [1], 2, 5, iter_destroy=[THR], iter_destroy_max_n=2, **kw), scen("S-B/caps01", [ONE, THR], [0, 1], 2, 4, iter_destroy=[100], iter_destroy_max_n=2, key_kinds=[0, 1, 3], **kw)]
    return [scen("S-A/cap%d" % c, [THR], [c], 3, 7, iter_destroy=[THR], iter_destroy_max_n=3, **kw) for c in (0, 2)] + \
           [scen("S-B/caps01", [ONE, THR], [0, 1], 2, 6, iter_destroy=[100, 102], iter_destroy_max_n=3, **kw),
            scen("S-D/cap2", [THR], [2], 2, 6, max_clones=1, iter_destroy=[THR], iter_destroy_max_n=2, key_kinds=[0, 3], vias=["World"], **kw),
            scen("S-F/cap2", [THR], [2], 2, 5, max_faults=1, iter_destroy=[THR], iter_destroy_max_n=2, key_kinds=[0, 1], vias=["World"], create_within=False, **kw)]


def fam_SC32(tier, **kw):
    """The 17-, 24- and 32-column archetypes (feature 32_components, arities [1,2,3,4,17,24,32] -> indices 4,5,6)."""
    # column 17 is heap-owning, column 24 a zero-sized Drop type, column 32 a tracked type: each is the LAST column of one archetype
    L, D = (2, 5) if tier == "quick" else (2, 7)
    kw.setdefault("max_clones", 1)
    return [scen("S-C32/arity%d" % ar, [idx], [1], L, D, iter_destroy=[idx], iter_destroy_max_n=2, key_kinds=[0, 1, 3], **kw) for idx, ar in ((4, 17), (5, 24), (6, 32))]


def fam_SP(tier, L=None, D=None, **kw):
    """Archetypes whose columns are declared in a permuted order (zero-sized column first; Key column last)."""
    L0, D0 = (3, 6) if tier == "quick" else (3, 8)
    L, D = L or L0, D or D0
    out = [scen("S-P/zfr/cap%d" % c, [ZFR], [c], L, D, iter_destroy=[ZFR], iter_destroy_max_n=2, **kw) for c in ((1,) if tier == "quick" else (0, 2))]
    out += [scen("S-P/pfr/cap%d" % c, [PFR], [c], L, D, iter_destroy=[PFR], iter_destroy_max_n=2, **kw) for c in ((0,) if tier == "quick" else (0, 1))]
    out.append(scen("S-P2/caps01", [THR, ZFR], [0, 1], 2, D - 1 if tier == "quick" else D - 2, iter_destroy=[100, 102], iter_destroy_max_n=2, **kw))
    return out


FAMILIES = {"SP": fam_SP, "SC32": fam_SC32, "SAN": fam_SAN, "SA": fam_SA, "SB": fam_SB, "SC": fam_SC, "SD": fam_SD, "SE": fam_SE, "SF": fam_SF, "SG": fam_SG}


def journal_candidates(jdir):
    out = []
    for p in sorted(glob.glob(os.path.join(jdir, "journal.*"))):
        data = open(p, "rb").read()
        if len(data) < 8:
            continue
        n = struct.unpack("<Q", data[:8])[0]
        try:
            out.append(json.loads(data[8:8 + n].decode()))
        except Exception:
            pass
    return out


REPLAY_ENV = {}


def replay_once(binary, scenario, history, known_path=KNOWN, timeout=300):
    os.makedirs(os.path.join(WORK, "replay"), exist_ok=True)
    tag = hashlib.sha1((json.dumps(scenario, sort_keys=True) + json.dumps(history)).encode()).hexdigest()[:10] + "-%d" % os.getpid()
    sp = os.path.join(WORK, "replay", "sc-%s.json" % tag)
    hp = os.path.join(WORK, "replay", "h-%s.json" % tag)
    write_json(sp, scenario)
    write_json(hp, history)
    cmd = [binary, "replay", "--scenario", sp, "--history", hp]
    if os.path.exists(known_path):
        cmd += ["--known", known_path]
    env = env_base()
    env.update(REPLAY_ENV)
    rc, out, err = run(cmd, timeout=timeout, env=env)
    for p in (sp, hp):
        try:
            os.remove(p)
        except OSError:
            pass
    return rc, out, err


def run_leg(binary, scenario, config, threads=NCPU, dfs_check_depth=3, max_seconds=None, max_exec=None, mode="pbfs", env_extra=None):
    """One exploration. Returns a dict with stats, counters, violations (each confirmed by a double replay)."""
    name = scenario["name"].replace("/", "_")
    tag = "%s.%s.%d" % (name, hashlib.sha1((config + json.dumps(scenario, sort_keys=True)).encode()).hexdigest()[:8], os.getpid())
    d = os.path.join(WORK, "hx", tag)
    shutil.rmtree(d, ignore_errors=True)
    os.makedirs(d)
    sp, op, jd = os.path.join(d, "scenario.json"), os.path.join(d, "out.json"), os.path.join(d, "journal")
    write_json(sp, scenario)
    cmd = [binary, "run", "--scenario", sp, "--out", op, "--threads", str(threads), "--journal", jd, "--dfs-check-depth", str(dfs_check_depth), "--mode", mode]
    if os.path.exists(KNOWN):
        cmd += ["--known", KNOWN]
    if max_seconds:
        cmd += ["--max-seconds", str(max_seconds)]
    if max_exec:
        cmd += ["--max-executions", str(max_exec)]
    t0 = time.time()
    env = env_base()
    env.update(env_extra or {})
    rc, out, err = run(cmd, timeout=(max_seconds or 3600) * 3 + 600, env=env)
    wall = time.time() - t0
    res = {"scenario": scenario, "config": config, "wall_s": wall, "violations": [], "crashed": False}
    if rc != 0 or not os.path.exists(op):
        # The subject crashed the process (abort / SIGSEGV / non-unwinding panic): crash-bisect protocol.
        res["crashed"] = True
        cands = journal_candidates(jd)
        log("hx leg %s [%s] died with rc=%s; %d journal candidate(s)" % (scenario["name"], config, rc, len(cands)))
        crashing = []
        for h in cands:
            r1 = replay_once(binary, scenario, h)
            r2 = replay_once(binary, scenario, h)
            if r1[0] not in (0, 1) and r2[0] not in (0, 1):
                tail = r1[2] or ""
                k = tail.find("ERROR: AddressSanitizer")
                crashing.append((h, r1[0], tail[k:k + 900] if k >= 0 else tail[-600:]))
            elif r1[0] == 1 and r2[0] == 1:
                # an ordinary violation that was about to be reported when another thread crashed
                try:
                    for v in json.loads(r1[1])["violations"]:
                        res["violations"].append(dict(v, confirmed=True))
                except Exception:
                    pass
        if not crashing and not res["violations"]:
            # the process died but no journalled history kills it in isolation: not a verdict (the caller turns this into a
            # machinery failure unless other legs produced confirmed violations)
            res.setdefault("unconfirmed", []).append("hx leg %s [%s] died with rc=%s and no journalled history reproduces it in isolation; stderr tail: %s" % (scenario["name"], config, rc, (err or "")[-300:]))
        crashing.sort(key=lambda x: len(x[0]))
        for h, code, tail in crashing[:3]:
            res["violations"].append({"prop": "CRASH", "oracle": "process-crash:rc=%s" % code, "msg": "the process died (rc=%s) while executing this history, twice in isolation. stderr tail: %s" % (code, tail), "history": h, "phase": "crash", "confirmed": True})
        res.update({"stats": {"unique_states": 0, "generated_states": 0, "transitions": 0, "executions": 0, "max_depth": 0, "capped": True}, "counters": {}, "samples": [], "outcomes": {}, "dfs_crosscheck": None})
        shutil.rmtree(d, ignore_errors=True)
        return res
    o = json.load(open(op))
    res.update({k: o[k] for k in ("stats", "counters", "samples", "outcomes", "dfs_crosscheck", "depth_histogram", "violations_total", "narch")})
    for v in o["violations"]:
        # determinism: the same history must fail the same way twice, in fresh processes
        r1 = replay_once(binary, scenario, v["history"])
        r2 = replay_once(binary, scenario, v["history"])
        same = r1[0] == r2[0] and r1[1] == r2[1]
        reproduced = False
        if r1[0] == 1:
            try:
                reproduced = any(x["prop"] == v["prop"] and x["oracle"] == v["oracle"] for x in json.loads(r1[1])["violations"])
            except Exception:
                reproduced = False
        elif r1[0] not in (0, 1):
            reproduced = same  # crashes when replayed single-threaded: still a deterministic failure
        if not (same and reproduced):
            # Not reported as a verdict: the same history must fail the same way every time. (Typical cause: the subject read
            # memory it does not own, whose content differs between runs; the sanitizer legs turn that into a deterministic crash.)
            res.setdefault("unconfirmed", []).append("%s/%s in %s does not replay deterministically (rc %s/%s), history %s" % (v["prop"], v["oracle"], scenario["name"], r1[0], r2[0], json.dumps(v["history"])))
            continue
        res["violations"].append(dict(v, confirmed=True))
    cc = o.get("dfs_crosscheck")
    if cc and not (cc["keys_equal"] and cc["verdicts_equal"]):
        raise MachineryError("explorer cross-check failed in %s: BFS and plain DFS disagree at depth %s: %s" % (scenario["name"], cc["depth"], cc))
    shutil.rmtree(d, ignore_errors=True)
    return res


# ------------------------------------------------------------------------------------------------
# Miri: precise oracle for uninitialised reads / aliasing / out-of-bounds on a small, fully enumerated set of histories
# ------------------------------------------------------------------------------------------------

MIRI_FIXED = [
    # churn + growth + reuse + dynamic keys + ecs_iter_destroy! + clone, written out (archetype 2 = Key, Zed, Pad)
    [{"Create": {"w": 0, "a": 2, "via": "World"}}, {"Create": {"w": 0, "a": 2, "via": "Arch"}}, {"Create": {"w": 0, "a": 2, "via": "World"}}, {"Destroy": {"w": 0, "a": 2, "i": 0, "key": 1, "via": "World"}},
     {"Create": {"w": 0, "a": 2, "via": "World"}}, {"Destroy": {"w": 0, "a": 2, "i": 1, "key": 2, "via": "Arch"}}, {"IterDestroy": {"w": 0, "scope": 2, "dec": 6}}, {"CreateWithin": {"w": 0, "a": 2, "via": "World"}}],
    [{"Create": {"w": 0, "a": 2, "via": "World"}}, {"Create": {"w": 0, "a": 2, "via": "World"}}, {"Destroy": {"w": 0, "a": 2, "i": 0, "key": 3, "via": "World"}}, {"CloneWorld": {"w": 0}},
     {"Create": {"w": 1, "a": 2, "via": "World"}}, {"Create": {"w": 1, "a": 2, "via": "World"}}, {"Destroy": {"w": 0, "a": 2, "i": 0, "key": 0, "via": "World"}}, {"IterDestroy": {"w": 1, "scope": 2, "dec": 2}}],
]


def miri_env():
    env = env_base()
    env["MIRIFLAGS"] = "-Zmiri-disable-isolation -Zmiri-ignore-leaks"
    env["RUSTFLAGS"] = "--cfg gecs_verif"
    src, tgt = engines_dir()
    env["CARGO_TARGET_DIR"] = tgt + "-miri"
    return env, src


def miri_replay(scenario, history, features=()):
    """One history under Miri. Returns (verdict, detail): ok | violation(json) | ub(stderr excerpt) | error."""
    os.makedirs(os.path.join(WORK, "replay"), exist_ok=True)
    tag = hashlib.sha1((json.dumps(scenario, sort_keys=True) + json.dumps(history)).encode()).hexdigest()[:12]
    sp = os.path.join(WORK, "replay", "msc-%s.json" % tag)
    hp = os.path.join(WORK, "replay", "mh-%s.json" % tag)
    write_json(sp, scenario)
    write_json(hp, history)
    env, src = miri_env()
    feats = ",".join(("no_poison",) + tuple(features))
    cmd = ["cargo", "+nightly", "miri", "run", "--offline", "-q", "-p", "hx", "--features", feats, "--", "replay", "--scenario", sp, "--history", hp]
    if os.path.exists(KNOWN):
        cmd += ["--known", KNOWN]
    rc, out, err = run(cmd, timeout=3600, env=env, cwd=src)
    for p in (sp, hp):
        try:
            os.remove(p)
        except OSError:
            pass
    if "Undefined Behavior" in err or "error: unsupported operation" in err:
        k = err.find("error:")
        return "ub", err[k:k + 1500]
    if rc == 0:
        return "ok", ""
    if rc == 1 and out.strip().startswith("{"):
        try:
            return "violation", json.loads(out)["violations"]
        except Exception:
            pass
    return "error", (err or out)[-1200:]


def run_miri_leg(native_binary, scenario, depth, features=(), workers=8):
    """All histories of `scenario` up to `depth` (enumerated natively by the plain DFS) + the fixed deeper ones, each replayed under Miri."""
    from concurrent.futures import ThreadPoolExecutor
    d = os.path.join(WORK, "hx", "miri-%d" % os.getpid())
    shutil.rmtree(d, ignore_errors=True)
    os.makedirs(d)
    sc = dict(scenario)
    sc["depth"] = depth
    sp, op, hp = os.path.join(d, "sc.json"), os.path.join(d, "out.json"), os.path.join(d, "hist.json")
    write_json(sp, sc)
    cmd = [native_binary, "run", "--scenario", sp, "--out", op, "--mode", "dfs", "--threads", "1", "--dump-histories", hp]
    if os.path.exists(KNOWN):
        cmd += ["--known", KNOWN]
    rc, out, err = run(cmd, timeout=3600)
    if not os.path.exists(hp):
        raise MachineryError("could not enumerate the histories for the Miri leg: rc=%s %s" % (rc, (err or "")[-500:]))
    hists = json.load(open(hp))
    full = dict(scenario)
    full["depth"] = 12
    jobs = [(sc, h) for h in hists] + [(full, h) for h in MIRI_FIXED if scenario.get("max_clones", 0) or not any("CloneWorld" in op for op in h)]
    # make sure the Miri build exists before fanning out (cargo would otherwise serialise on the build lock anyway)
    t0 = time.time()
    first = miri_replay(jobs[0][0], jobs[0][1], features)
    with ThreadPoolExecutor(max_workers=workers) as ex:
        rest = list(ex.map(lambda j: miri_replay(j[0], j[1], features), jobs[1:]))
    results = [first] + rest
    shutil.rmtree(d, ignore_errors=True)
    return jobs, results, time.time() - t0
