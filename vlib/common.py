"""Shared plumbing: paths, builds, subprocesses, evidence, known findings, replay artefacts."""
import fcntl, hashlib, json, os, shutil, signal, subprocess, sys, time

VERIF = os.path.dirname(os.path.dirname(os.path.abspath(__file__)))
REPO = os.environ.get("GECS_REPO", "/repo")
ENGINES = os.path.join(VERIF, "engines")
WORK = os.path.join(VERIF, "work")
TARGET = os.path.join(VERIF, "target")
# Evidence and replay artefacts of a run against something other than /repo (a scratch worktree with a mutant or a
# seeded change applied) never land in the committed directories.
_ALT = os.path.join(WORK, "alt") if os.path.realpath(REPO) != "/repo" else VERIF
EVIDENCE = os.path.join(_ALT, "evidence")
REPLAYS = os.path.join(_ALT, "replays")
KNOWN = os.path.join(VERIF, "known_findings.json")
NCPU = os.cpu_count() or 4
MAXV = 4294967295


class MachineryError(Exception):
    pass


def log(*a):
    print("[verif]", *a, file=sys.stderr, flush=True)


def env_base():
    e = dict(os.environ)
    e["CARGO_NET_OFFLINE"] = "true"
    e.setdefault("CARGO_TERM_COLOR", "never")
    return e


def engines_dir():
    """Engines build against /repo by absolute path. For GECS_REPO=<other dir> (mutant copies) a copy of the
    engine sources with the path rewritten is used, with its own target directory."""
    if REPO == "/repo":
        return ENGINES, os.path.join(TARGET, "main")
    tag = hashlib.sha1(REPO.encode()).hexdigest()[:10]
    base = os.path.join(os.environ.get("TMPDIR", "/tmp"), "gecs-verif-alt-" + tag)
    src = os.path.join(base, "engines")
    os.makedirs(base, exist_ok=True)
    subprocess.run(["rsync", "-a", "--delete", "--exclude", "target", ENGINES + "/", src + "/"], check=True)
    for root, _, files in os.walk(src):
        for f in files:
            if f == "Cargo.toml" or f.endswith(".toml.in"):
                p = os.path.join(root, f)
                s = open(p).read()
                s2 = s.replace('path = "/repo"', 'path = "%s"' % REPO).replace('path = "/repo/', 'path = "%s/' % REPO)
                if s2 != s:
                    open(p, "w").write(s2)
    # px reads the macro sources through a symlink
    link = os.path.join(src, "px", "src", "msrc")
    if os.path.islink(link) or os.path.exists(link):
        os.remove(link)
    os.symlink(os.path.join(REPO, "macros", "src"), link)
    return src, os.path.join(base, "target")


_built = {}


def build(pkg, profile, features=(), toolchain=None, rustflags_extra="", target_sub=None, extra_args=()):
    """Builds one engine configuration from /repo's CURRENT working tree; returns the path of a private copy of the binary."""
    features = tuple(sorted(features))
    key = (pkg, profile, features, toolchain, rustflags_extra, target_sub)
    if key in _built:
        return _built[key]
    src, tgt = engines_dir()
    if target_sub:
        tgt = tgt + "-" + target_sub
    os.makedirs(tgt, exist_ok=True)
    os.makedirs(os.path.join(WORK, "bin"), exist_ok=True)
    env = env_base()
    env["RUSTFLAGS"] = ("--cfg gecs_verif " + rustflags_extra).strip()
    env["CARGO_TARGET_DIR"] = tgt
    cmd = ["cargo"]
    if toolchain:
        cmd.append("+" + toolchain)
    cmd += ["build", "--offline", "-p", pkg, "--profile", profile]
    if features:
        cmd += ["--features", ",".join(features)]
    cmd += list(extra_args)
    tag = hashlib.sha1(repr(key + (REPO,)).encode()).hexdigest()[:10]
    dst = os.path.join(WORK, "bin", "%s.%s.%s" % (pkg, profile, tag))
    lock = open(os.path.join(tgt, ".verif-build-lock"), "w")
    fcntl.flock(lock, fcntl.LOCK_EX)
    try:
        t0 = time.time()
        p = subprocess.run(cmd, cwd=src, env=env, stdout=subprocess.PIPE, stderr=subprocess.STDOUT, text=True)
        if p.returncode != 0:
            tail = "\n".join(p.stdout.splitlines()[-60:])
            e = BuildFailed("build of %s (%s, %s) failed:\n%s" % (pkg, profile, ",".join(features), tail))
            # did the library itself fail to compile (as opposed to the engine built on top of it)?
            e.in_library = ("could not compile `gecs`" in p.stdout) or ("could not compile `gecs_macros`" in p.stdout)
            e.features = features
            e.profile = profile
            e.tail = tail
            raise e
        triple = None
        for a in extra_args:
            if a.startswith("--target="):
                triple = a.split("=", 1)[1]
        out = os.path.join(tgt, triple, profile, pkg) if triple else os.path.join(tgt, profile, pkg)
        shutil.copy2(out, dst + ".tmp")
        os.replace(dst + ".tmp", dst)
        log("built %s [%s %s] in %.1fs" % (pkg, profile, ",".join(features) or "-", time.time() - t0))
    finally:
        fcntl.flock(lock, fcntl.LOCK_UN)
        lock.close()
    _built[key] = dst
    return dst


class BuildFailed(MachineryError):
    pass


def run(cmd, timeout=None, env=None, cwd=None, stdin=None):
    """Runs a subprocess; returns (returncode, stdout, stderr). A negative returncode is a signal."""
    try:
        p = subprocess.run(cmd, cwd=cwd or VERIF, env=env or env_base(), stdout=subprocess.PIPE, stderr=subprocess.PIPE, text=True,
                           timeout=timeout, input=stdin)
        return p.returncode, p.stdout, p.stderr
    except subprocess.TimeoutExpired as e:
        return -999, (e.stdout or b"").decode("utf8", "replace") if isinstance(e.stdout, bytes) else (e.stdout or ""), "timeout"


def load_known():
    if not os.path.exists(KNOWN):
        return {"findings": []}
    return json.load(open(KNOWN))


def known_entries(prop, status="known"):
    return [f for f in load_known()["findings"] if f["property"] == prop and f["status"] == status]


def write_json(path, obj):
    os.makedirs(os.path.dirname(path), exist_ok=True)
    tmp = path + ".tmp"
    with open(tmp, "w") as f:
        json.dump(obj, f, indent=1, sort_keys=False)
        f.write("\n")
    os.replace(tmp, path)


def save_replay(prop, payload):
    """Writes a replay artefact and returns its path."""
    os.makedirs(REPLAYS, exist_ok=True)
    h = hashlib.sha1(json.dumps(payload, sort_keys=True).encode()).hexdigest()[:12]
    path = os.path.join(REPLAYS, "%s-%s.json" % (prop, h))
    payload = dict(payload)
    payload["property"] = prop
    write_json(path, payload)
    return path


def validate_evidence(ev):
    """Validates against the evidence schema (in-process if jsonschema is importable, else through python3-vt)."""
    schema_path = "/root/.vp/EVIDENCE.schema.json"
    if not os.path.exists(schema_path):
        return
    try:
        import jsonschema
        jsonschema.validate(ev, json.load(open(schema_path)))
        return
    except ImportError:
        pass
    vt = shutil.which("python3-vt")
    if not vt:
        return
    p = subprocess.run([vt, "-c", "import json,sys,jsonschema; jsonschema.validate(json.load(sys.stdin), json.load(open(sys.argv[1])))", schema_path],
                       input=json.dumps(ev), text=True, stdout=subprocess.PIPE, stderr=subprocess.PIPE)
    if p.returncode != 0:
        raise MachineryError("evidence does not validate against the schema: " + p.stderr[-800:])


def sha_tree(paths):
    h = hashlib.sha256()
    for base in paths:
        for root, dirs, files in sorted(os.walk(base)):
            dirs.sort()
            for f in sorted(files):
                p = os.path.join(root, f)
                h.update(p.encode())
                h.update(open(p, "rb").read())
    return h.hexdigest()
