"""Writes MANIFEST.json from the tables (kept in one place so that it cannot drift from the driver)."""
import json, os
from common import *
import props

TEXT = {
    "C01": "Every operation history up to the depth bound, from every small initial capacity, is executed on the real ecs_world!-generated world; after every transition every handle the history ever issued (live and stale, typed and dynamic) is pushed through every lookup path and compared with a bits->entity map; hook H1 additionally checks the slot/dense bijection. A whole-population leg (2^16+1 and 2^20+1 entities, thorough also 2^24; plus an archetype whose columns are all zero-sized) sweeps every handle ever issued through every lookup path after every phase of a scripted history.",
    "C02": "Same exploration, with a write through a rotating mutable access path after every step; every read path x key kind is compared column by column with the reference for every live entity in every state, for archetypes of 1..16 (and 17/24/32) columns incl. zero-sized, over-aligned and heap-owning types, also after clone() from every reachable state. A whole-population leg (2^16+1 and 2^20+1 entities, thorough also 2^24; plus an archetype whose columns are all zero-sized) sweeps every handle ever issued through every lookup path after every phase of a scripted history.",
    "C03": "In every explored state an exhaustive class universe of forged values (positions x generations x archetype bytes; direct handles indices x versions; handles of the other world) goes through every safe API in a debug-assertion build and an assertion-free build; thorough adds full 2^32 key sweeps over four fixed states.",
    "C04": "Tracked component types register every construction, clone and drop; the registry must equal what the reference model says the worlds own after every step, the world is dropped at every explored state, and the totals must return to zero. A whole-population leg (2^16+1 and 2^20+1 entities, thorough also 2^24; plus an archetype whose columns are all zero-sized) sweeps every handle ever issued through every lookup path after every phase of a scripted history.",
    "C05": "The real binding/generation code (macro sources compiled as a library) is run over every world x parameter list x generator inside the bound and compared with an independent set computation; a systematic stride is compiled and executed with the real rustc, ill-formed queries must fail with the expected diagnostic.",
    "C06": "In every explored state every iteration API is run and compared (exactly-once multiset, handle/data pairing, count == len); every Break position of the multi-archetype queries is tried. A whole-population leg (2^16+1 and 2^20+1 entities, thorough also 2^24; plus an archetype whose columns are all zero-sized) sweeps every handle ever issued through every lookup path after every phase of a scripted history.",
    "C07": "All 4^n decision functions of ecs_iter_destroy! are transitions of the explored graph (typed and multi-archetype scopes), so loops start from churned, grown and refilled layouts and are followed by further exploration. A whole-population leg (2^16+1 and 2^20+1 entities, thorough also 2^24; plus an archetype whose columns are all zero-sized) sweeps every handle ever issued through every lookup path after every phase of a scripted history.",
    "C08": "A world-wide set of issued handles is kept by the reference; every create in every history must return a value outside it; hook H2 places the generations just below 2^32-1 so that histories cross the overflow boundary (thorough: a hook-free run of 2^32-1 real cycles). A whole-population leg (2^16+1 and 2^20+1 entities, thorough also 2^24; plus an archetype whose columns are all zero-sized) sweeps every handle ever issued through every lookup path after every phase of a scripted history.",
    "C09": "Inductive formulation evaluated on every transition (every direct handle valid before the step is afterwards dead iff the step removed from its archetype), at every minting route, and over a per-state (index, version) universe.",
    "C10": "A panic at every callback point (closure of each macro, k-th Clone, k-th Drop in destroy / ecs_iter_destroy! / world drop, borrow conflict, version overflows) is a transition; afterwards the exploration continues and all other oracles keep being evaluated. The closure-panic case is repeated in the middle of a destroying pass over 2^16+1 and 2^20+1 entities, followed by a sweep of every handle ever issued.",
    "C11": "Complete matrix of nested runtime-borrowed accesses up to the depth bound against a reader/writer table; after every cell, unwound or not, no guard may be left behind.",
    "C12": "len/capacity arithmetic after every step of every history from capacities 0..4; in every state each archetype is refilled to exactly capacity() with create_within_capacity and one more attempt must fail; free-list shape via hook H1. A whole-population leg (2^16+1 and 2^20+1 entities, thorough also 2^24; plus an archetype whose columns are all zero-sized) sweeps every handle ever issued through every lookup path after every phase of a scripted history.",
    "C13": "clone() is a transition from every reachable state; the two worlds are then driven through all diverging histories against two independent copies of the reference, with equal representation at the split, and both are refilled to capacity. A whole-population leg (2^16+1 and 2^20+1 entities, thorough also 2^24; plus an archetype whose columns are all zero-sized) sweeps every handle ever issued through every lookup path after every phase of a scripted history.",
    "C14": "Algebraic laws of the handle conversions evaluated on every element of the enumerated key space (boundary set in quick, all 2^32 keys x 4 generations in thorough) and on every handle issued in explored histories.",
    "C15": "Every declaration inside the bound through the real DataWorld::new against the discriminant fold; systematic stride compiled with the real rustc.",
    "C16": "Every decoration x truth vector inside the bound through the real code, differentially against the undecorated twin; decorated/twin pairs compiled and run with the real rustc (exercises the generated cfg macro chain).",
    "C17": "Exploration on the events build with clears as transitions; event multisets per archetype, the world-level union and exact size_hint at every iterator prefix are checked in every state.",
    "C18": "No `unsafe` token in any expansion of the exhaustive enumerations (with and without events), conformance crates under #![forbid(unsafe_code)], and a misuse x structural-change matrix of minimal unsound programs with sound twins decided by the real rustc.",
    "C19": "The explorations, the nesting matrix and the key-space sweeps are rebuilt and re-run under the feature sets x assertion modes; verdicts must be clean and feature-independent scenarios must have identical state graphs.",
}
TECH = {
    "C05": "exhaustive enumeration of the program space through the real macro code + real-rustc conformance",
    "C11": "exhaustive enumeration of access nestings against a reader/writer table",
    "C14": "exhaustive key-space enumeration (algebraic laws)",
    "C15": "exhaustive enumeration of declarations through the real macro code + real-rustc conformance",
    "C16": "exhaustive enumeration of cfg decorations x truth vectors, differential against the undecorated twin + real-rustc conformance",
    "C18": "exhaustive token scan of all enumerated expansions + compile-fail matrix with sound twins (real rustc)",
    "C19": "exhaustive enumeration of configurations, each re-running the bounded explorations",
}
LEVEL = {"C05": "exploration", "C11": "exploration", "C14": "exploration", "C15": "exploration", "C16": "exploration", "C18": "exploration", "C19": "exploration"}


def write():
    checks = []
    for i in range(1, 20):
        pid = "C%02d" % i
        level = props.META[pid][0] if pid in props.META else LEVEL[pid]
        tech = props.META[pid][2] if pid in props.META else TECH[pid]
        engine = {"C05": "px", "C15": "px", "C16": "px", "C18": "px+cx", "C11": "ax", "C14": "kx+hx", "C19": "mx", "C03": "hx+kx"}.get(pid, "hx")
        checks.append({
            "property_id": pid,
            "quick_cmd": "./verif check %s --tier quick" % pid,
            "thorough_cmd": "./verif check %s --tier thorough" % pid,
            "evidence_file": "/verif/evidence/%s.json" % pid,
            "replay_cmd_template": "./verif replay {path}",
            "engine": engine,
            "level_claimed": {"category": level, "text": TEXT[pid], "design_ref": "DESIGN.md section 3, " + pid},
            "level_note": "bounded: nothing is claimed beyond the bounds recorded in the evidence (coverage.bounds / coverage.rule). Trusted base: rustc/std/cargo, the harness' reference models, hooks H1/H2 (cfg gecs_verif) where used, stateright only as a cross-check.",
            "technique": tech,
        })
    man = {
        "version": 1,
        "setup_cmd": "./verif build",
        "hooks": {"guard": "gecs_verif", "enable": "RUSTFLAGS=\"--cfg gecs_verif\" (a rustc cfg, not a cargo feature, so the feature lattice of C19 is untouched)",
                  "baseline_off_cmd": "cd /repo && cargo test --workspace --no-fail-fast --offline", "source_commits": ["573f458"], "add_only": True},
        "engines": [
            {"name": "hx", "path": "engines/hx", "serves_properties": ["C01", "C02", "C03", "C04", "C06", "C07", "C08", "C09", "C10", "C12", "C13", "C14", "C17", "C19"], "kind_free_text": "explicit-state exploration of operation histories on the real generated world (own level-synchronous parallel BFS; stateright BFS and a plain DFS as cross-checks)"},
            {"name": "kx", "path": "engines/kx", "serves_properties": ["C14", "C03", "C19"], "kind_free_text": "exhaustive key-space sweeps"},
            {"name": "wx", "path": "engines/wx", "serves_properties": ["C01", "C05", "C06", "C07", "C14", "C15", "C17", "C19"], "kind_free_text": "the 256-archetype world: every archetype index x populations {single, first+last, every, none} through lookup, conversion tables, Select* enums, multi-archetype queries and world-level event iterators"},
            {"name": "ax", "path": "engines/ax", "serves_properties": ["C11", "C19"], "kind_free_text": "exhaustive access-nesting matrix"},
            {"name": "px", "path": "engines/px", "serves_properties": ["C05", "C15", "C16", "C18"], "kind_free_text": "program-space enumeration through the real macro sources compiled as a library, plus emitted conformance programs for the real rustc"},
            {"name": "cx", "path": "vlib/cx.py", "serves_properties": ["C18", "C19"], "kind_free_text": "compile-fail matrix with sound twins"},
        ],
        "checks": checks,
        "not_applicable": [],
        "notes": "Exit codes of every command: 0 held / only listed known findings, 1 VIOLATION line printed, 2 machinery failure (never a verdict). Known findings: known_findings.json. See DESIGN.md.",
    }
    write_json(os.path.join(VERIF, "MANIFEST.json"), man)
    try:
        import jsonschema
        jsonschema.validate(man, json.load(open("/root/.vp/MANIFEST.schema.json")))
    except ImportError:
        pass
    print("MANIFEST.json written with %d checks" % len(checks))
    return 0
