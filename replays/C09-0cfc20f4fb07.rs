// Drop this file into /verif/engines/hx/tests/ and run: cargo test -p hx --profile chk --test <name>
use hx::explore::*; use hx::sys::*; use std::sync::Arc;
#[test]
fn replay() {
    let sc: Scenario = serde_json::from_str(r#"{"name": "S-A/cap0", "archs": [2], "caps": [0], "max_live": 3, "depth": 7, "props": ["C09"], "iter_destroy": [2], "iter_destroy_max_n": 3}"#).unwrap();
    let hist: Vec<Op> = serde_json::from_str(r#"[{"Create": {"w": 0, "a": 2, "via": "World"}}, {"Create": {"w": 0, "a": 2, "via": "World"}}, {"IterDestroy": {"w": 0, "scope": 2, "dec": 8}}]"#).unwrap();
    let sh = Shared::new(sc, Arc::new(Vec::new()), false, None, u64::MAX);
    let st = execute(&sh, &hist);
    assert!(!st.bad, "{:?}", sh.found.lock().unwrap());
}
