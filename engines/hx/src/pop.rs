//! POP: whole-population sweeps at sizes that straddle the powers of two a bounded history never reaches (2^16 + 1,
//! 2^20 + 1, 2^24). One scripted history per (size, starting capacity) — fill, overwrite, scattered destroys with every key
//! kind, `ecs_iter_destroy!`, refill without growth, clone — and after EVERY phase EVERY handle ever issued is looked up
//! through every lookup path and compared with the list of what was created (no sampling: the oracle runs over the whole
//! population). This is what makes a behaviour gated by an index width or a size threshold (u16 / u20 truncation, a chunked
//! fast path, a free list longer than some constant) visible; S-H only follows three entities.

use std::panic::{catch_unwind, AssertUnwindSafe};

use gecs::prelude::*;
use serde::Serialize;

use crate::sys::{panic_msg, Vio};

#[derive(Clone, Copy, PartialEq, Eq, Debug)]
pub struct Uid(pub u32);
#[derive(Clone, Copy, PartialEq, Eq, Debug)]
pub struct Dat(pub u64);
#[derive(Clone, Copy, PartialEq, Eq, Debug)]
pub struct Mrk(pub u8);

thread_local! {
    /// (constructed or cloned, dropped) instances of the zero-sized `Zmk`
    static ZC: std::cell::Cell<(i64, i64)> = const { std::cell::Cell::new((0, 0)) };
}
/// Zero-sized with `Drop` and a counting `Clone`.
pub struct Zmk;
impl Zmk {
    fn new() -> Self {
        ZC.with(|c| c.set((c.get().0 + 1, c.get().1)));
        Zmk
    }
}
impl Clone for Zmk {
    fn clone(&self) -> Self {
        Zmk::new()
    }
}
impl Drop for Zmk {
    fn drop(&mut self) {
        ZC.with(|c| c.set((c.get().0, c.get().1 + 1)));
    }
}
/// Plain unit component.
#[derive(Clone, Copy)]
pub struct Zun;

pub mod pw {
    use super::{Dat, Mrk, Uid, Zmk, Zun};
    use gecs::prelude::*;
    ecs_world! {
        ecs_name!(PW);
        #[archetype_id(3)]
        ecs_archetype!(Oth, Uid, Mrk);
        #[archetype_id(77)]
        ecs_archetype!(Pop, Uid, Dat);
        // every column zero-sized: no column has an address range to walk, identity is the handle alone
        #[archetype_id(200)]
        ecs_archetype!(Zst, Zmk, Zun);
    }
}
use pw::*;

fn mix(uid: u32, round: u32) -> u64 {
    let mut x = (uid as u64) << 32 | (round as u64) << 8 | 0x5b;
    x ^= x >> 29;
    x = x.wrapping_mul(0xbf58_476d_1ce4_e5b9);
    x ^= x >> 32;
    x
}

#[derive(Serialize, Default)]
pub struct PopStats {
    pub sizes: Vec<usize>,
    pub worlds_built: u64,
    pub entities_created: u64,
    pub entities_destroyed: u64,
    pub full_population_sweeps: u64,
    pub lookups: u64,
    pub iteration_items: u64,
    pub refills_without_growth: u64,
    pub handles_compared_for_reissue: u64,
    pub growth_steps: u64,
    pub phases: u64,
    pub event_log_entries_compared: u64,
    pub event_size_hints_checked: u64,
    pub zst_worlds: u64,
    pub zst_sweeps: u64,
    pub zst_values_balanced: u64,
}

macro_rules! vio {
    ($prop:expr, $oracle:expr, $($fmt:tt)*) => { return Err(Vio { prop: $prop.into(), oracle: format!("population:{}", $oracle), msg: format!($($fmt)*) }) };
}

struct St {
    w: PW,
    /// handle of the i-th creation (uid = i + 1)
    handles: Vec<Entity<Pop>>,
    alive: Vec<bool>,
    /// write round of every entity's `Dat`
    round: Vec<u8>,
    others: Vec<Entity<Oth>>,
    n_alive: usize,
    /// indices into `handles` created / destroyed since the last clear (events build)
    ev_created: Vec<u32>,
    ev_destroyed: Vec<u32>,
    ev_others_pending: bool,
}

fn sweep(s: &mut St, at: &str, st: &mut PopStats) -> Result<(), Vio> {
    st.full_population_sweeps += 1;
    let n_alive = s.n_alive;
    let r = catch_unwind(AssertUnwindSafe(|| -> Result<u64, Vio> {
        let mut lookups = 0u64;
        let w = &mut s.w;
        if w.pop.len() != n_alive || w.pop.is_empty() != (n_alive == 0) {
            vio!("C12", "len", "{}: len() = {} with {} entities alive", at, w.pop.len(), n_alive);
        }
        if w.pop.capacity() < w.pop.len() {
            vio!("C12", "capacity-below-len", "{}: capacity {} < len {}", at, w.pop.capacity(), w.pop.len());
        }
        if w.pop.entities().len() != n_alive || w.pop.get_slice::<Uid>().len() != n_alive || w.pop.borrow_slice::<Dat>().len() != n_alive {
            vio!("C06,C12", "slice-length", "{}: entities() / get_slice / borrow_slice lengths {} / {} / {} with len() {}", at, w.pop.entities().len(), w.pop.get_slice::<Uid>().len(), w.pop.borrow_slice::<Dat>().len(), n_alive);
        }
        for i in 0..s.handles.len() {
            let e = s.handles[i];
            let any = e.into_any();
            let uid = i as u32 + 1;
            lookups += 6;
            if s.alive[i] {
                let want = mix(uid, s.round[i] as u32);
                if !w.contains(e) || !w.pop.contains(any) {
                    vio!("C01", "live-handle-rejected:contains", "{}: live entity uid {} ({:?}) is not contained", at, uid, e);
                }
                let idx = match w.pop.resolve(e) {
                    Some(x) => x,
                    None => vio!("C01", "live-handle-rejected:resolve", "{}: live entity uid {} ({:?}) does not resolve", at, uid, e),
                };
                if idx >= n_alive || w.pop.entities()[idx] != e {
                    vio!("C01,C06", "resolve-designates-other", "{}: uid {} ({:?}) resolves to dense index {} holding {:?}", at, uid, e, idx, w.pop.entities().get(idx));
                }
                let (gu, gd) = (w.pop.get_slice::<Uid>()[idx], w.pop.get_slice::<Dat>()[idx]);
                if gu.0 != uid || gd.0 != want {
                    vio!("C02", "read-wrong-values:slice", "{}: uid {} ({:?}) at dense index {} reads uid {} dat {:#x}, expected {:#x}", at, uid, e, idx, gu.0, gd.0, want);
                }
                let f = ecs_find!(w, any, |u: &Uid, d: &Dat, me: &Entity<Pop>| (u.0, d.0, *me));
                if f != Some((uid, want, e)) {
                    vio!("C01,C02", "read-wrong-values:find", "{}: ecs_find! with the dynamic handle of uid {} yields {:?}", at, uid, f);
                }
                let v = w.view(e).map(|v| (v.component::<Uid>().0, v.component::<Dat>().0));
                if v != Some((uid, want)) {
                    vio!("C01,C02", "read-wrong-values:view", "{}: view of uid {} yields {:?}", at, uid, v);
                }
                match w.to_direct(any) {
                    Some(d) => {
                        if w.pop.resolve(d) != Some(idx) || !w.contains(d) {
                            vio!("C09", "fresh-direct-rejected", "{}: the direct handle just issued for uid {} resolves to {:?}, expected {}", at, uid, w.pop.resolve(d), idx);
                        }
                    }
                    None => vio!("C01,C09", "live-handle-rejected:to_direct", "{}: to_direct refuses live uid {}", at, uid),
                }
            } else {
                if w.contains(e) || w.contains(any) || w.pop.resolve(any).is_some() || w.to_direct(e).is_some() {
                    vio!("C01", "stale-handle-accepted", "{}: destroyed uid {} ({:?}) is still accepted (contains {}, {}, resolve {:?})", at, uid, e, w.contains(e), w.contains(any), w.pop.resolve(any));
                }
                if ecs_find!(w, e, |_u: &Uid| ()).is_some() || w.borrow(e).is_some() {
                    vio!("C01", "stale-handle-accepted:find", "{}: destroyed uid {} ({:?}) is found by ecs_find! / borrow", at, uid, e);
                }
            }
        }
        Ok(lookups)
    }));
    match r {
        Ok(Ok(l)) => st.lookups += l,
        Ok(Err(v)) => return Err(v),
        Err(p) => vio!("C01,C02", "sweep-panicked", "{}: a lookup panicked: {}", at, panic_msg(&p)),
    }
    // iteration: every live entity exactly once, paired with its own handle and data; three forms
    let total = s.handles.len();
    let r = catch_unwind(AssertUnwindSafe(|| -> Result<u64, Vio> {
        let mut items = 0u64;
        for form in 0..3 {
            let mut seen = vec![false; total];
            let mut bad: Option<String> = None;
            let mut count = 0usize;
            {
                let mut visit = |e: Entity<Pop>, u: u32, d: u64| {
                    count += 1;
                    let i = (u as usize).wrapping_sub(1);
                    if i >= total || !s.alive[i] || seen[i] || s.handles[i] != e || d != mix(u, s.round[i] as u32) {
                        if bad.is_none() {
                            bad = Some(format!("item (handle {:?}, uid {}, dat {:#x}): known {}, alive {}, seen before {}, own handle {:?}", e, u, d, i < total, i < total && s.alive[i], i < total && seen[i], s.handles.get(i)));
                        }
                    } else {
                        seen[i] = true;
                    }
                };
                match form {
                    0 => ecs_iter!(s.w, |e: &Entity<Pop>, u: &Uid, d: &Dat| { visit(*e, u.0, d.0); }),
                    1 => ecs_iter_borrow!(s.w, |e: &EntityAny, u: &Uid, d: &Dat| { if let Ok(t) = Entity::<Pop>::try_from(*e) { visit(t, u.0, d.0); } }),
                    _ => {
                        for (e, u, d) in s.w.pop.iter() {
                            visit(*e, u.0, d.0);
                        }
                    }
                }
            }
            items += count as u64;
            if let Some(b) = bad {
                vio!("C06", "iteration-wrong-item", "{}: iteration form {}: {}", at, form, b);
            }
            if count != n_alive {
                vio!("C06", "iteration-misses-entities", "{}: iteration form {} produced {} items with {} entities alive", at, form, count, n_alive);
            }
        }
        // world-level query over both archetypes (Uid is shared)
        let mut c = 0usize;
        ecs_iter!(s.w, |_u: &Uid| { c += 1; });
        if c != n_alive + s.others.len() {
            vio!("C06", "iteration-misses-entities:world", "{}: |&Uid| over both archetypes produced {} items, expected {}", at, c, n_alive + s.others.len());
        }
        for (k, o) in s.others.iter().enumerate() {
            let f = ecs_find!(s.w, *o, |u: &Uid, m: &Mrk| (u.0, m.0));
            if f != Some((0x8000_0000 + k as u32, k as u8)) {
                vio!("C02", "neighbour-archetype-disturbed", "{}: entity {} of the small archetype reads {:?}", at, k, f);
            }
        }
        Ok(items + c as u64)
    }));
    match r {
        Ok(Ok(i)) => st.iteration_items += i,
        Ok(Err(v)) => return Err(v),
        Err(p) => vio!("C06", "iteration-panicked", "{}: an iteration panicked: {}", at, panic_msg(&p)),
    }
    st.phases += 1;
    Ok(())
}

/// Events build: both logs of the big archetype and both world-level iterators against what happened since the last clear -
/// as multisets, with the exact `size_hint` before the first and after every 4099th `next()`, and `count()`.
#[cfg(feature = "events")]
fn check_events(s: &mut St, at: &str, st: &mut PopStats) -> Result<(), Vio> {
    let r = catch_unwind(AssertUnwindSafe(|| -> Result<(u64, u64), Vio> {
        let mut hints = 0u64;
        let mut compared = 0u64;
        for which in 0..2 {
            let name = if which == 0 { "created" } else { "destroyed" };
            let mut want: Vec<(u32, u32)> = (if which == 0 { &s.ev_created } else { &s.ev_destroyed }).iter().map(|i| s.handles[*i as usize].into_any().raw()).collect();
            let mut got_arch: Vec<(u32, u32)> = if which == 0 { s.w.pop.iter_created().map(|e| e.into_any().raw()).collect() } else { s.w.pop.iter_destroyed().map(|e| e.into_any().raw()).collect() };
            want.sort_unstable();
            got_arch.sort_unstable();
            if got_arch != want {
                vio!("C17", format!("{}-log-differs", name), "{}: the archetype's {} log has {} entries, {} expected (first difference at sorted position {:?})", at, name, got_arch.len(), want.len(), got_arch.iter().zip(want.iter()).position(|(a, b)| a != b));
            }
            compared += want.len() as u64;
            // world level: union with the small archetype's log (3 creations pending until the first clear)
            let extra: Vec<(u32, u32)> = if which == 0 && s.ev_others_pending { s.others.iter().map(|e| e.into_any().raw()).collect() } else { Vec::new() };
            let total = want.len() + extra.len();
            let mut got_world: Vec<(u32, u32)> = Vec::with_capacity(total);
            let mut it: Box<dyn Iterator<Item = &EntityAny>> = if which == 0 { Box::new(s.w.iter_created()) } else { Box::new(s.w.iter_destroyed()) };
            let mut k = 0usize;
            loop {
                if k % 4099 == 0 || total - k.min(total) < 3 {
                    let h = it.size_hint();
                    hints += 1;
                    if h != (total - k.min(total), Some(total - k.min(total))) || k > total {
                        vio!("C17", "size-hint", "{}: world-level {} iterator after {} of {} items reports size_hint {:?}", at, name, k, total, h);
                    }
                }
                match it.next() {
                    Some(e) => { got_world.push(e.raw()); k += 1; }
                    None => break,
                }
            }
            drop(it);
            let cnt = if which == 0 { s.w.iter_created().count() } else { s.w.iter_destroyed().count() };
            got_world.sort_unstable();
            want.extend(extra);
            want.sort_unstable();
            if got_world != want || cnt != want.len() {
                vio!("C17", format!("world-{}-not-union", name), "{}: the world-level {} iterator yields {} items (count() {}), the union of the archetypes has {}", at, name, got_world.len(), cnt, want.len());
            }
            compared += want.len() as u64;
        }
        Ok((compared, hints))
    }));
    match r {
        Ok(Ok((c, h))) => { st.event_log_entries_compared += c; st.event_size_hints_checked += h; Ok(()) }
        Ok(Err(v)) => Err(v),
        Err(p) => vio!("C17", "event-iterator-panicked", "{}: an event iterator panicked: {}", at, panic_msg(&p)),
    }
}
#[cfg(not(feature = "events"))]
fn check_events(_s: &mut St, _at: &str, _st: &mut PopStats) -> Result<(), Vio> {
    Ok(())
}

#[cfg(feature = "events")]
fn clear_events(s: &mut St, world_level: bool) {
    if world_level { s.w.clear_events(); s.ev_others_pending = false; } else { s.w.pop.clear_events(); }
    s.ev_created.clear();
    s.ev_destroyed.clear();
}
#[cfg(not(feature = "events"))]
fn clear_events(s: &mut St, _world_level: bool) {
    s.ev_created.clear();
    s.ev_destroyed.clear();
}

fn one(n: usize, cap0: usize, st: &mut PopStats) -> Result<(), Vio> {
    st.worlds_built += 1;
    let w = match catch_unwind(|| PW::with_capacity(PWCapacity { oth: 0, pop: cap0, zst: 0 })) {
        Ok(w) => w,
        Err(p) => vio!("C12", "with-capacity-panicked", "with_capacity({}) panicked: {}", cap0, panic_msg(&p)),
    };
    let mut s = St { w, handles: Vec::with_capacity(n * 2), alive: Vec::with_capacity(n * 2), round: Vec::with_capacity(n * 2), others: Vec::new(), n_alive: 0, ev_created: Vec::new(), ev_destroyed: Vec::new(), ev_others_pending: true };
    for k in 0..3u32 {
        s.others.push(s.w.create::<Oth>((Uid(0x8000_0000 + k), Mrk(k as u8))));
    }
    if s.w.pop.capacity() < cap0 {
        vio!("C12", "capacity-below-requested", "with_capacity({}) gives {}", cap0, s.w.pop.capacity());
    }
    // phase 1: fill
    let mut last_cap = s.w.pop.capacity();
    let r = catch_unwind(AssertUnwindSafe(|| -> Result<(), Vio> {
        for i in 0..n {
            let uid = i as u32 + 1;
            let comps = (Uid(uid), Dat(mix(uid, 0)));
            let e = if i < cap0 {
                match s.w.create_within_capacity::<Pop>(comps) {
                    Ok(e) => e,
                    Err(_) => vio!("C12", "within-capacity-refuses-with-room", "create_within_capacity refused entity {} of {} requested", i + 1, cap0),
                }
            } else if i % 2 == 0 { s.w.create::<Pop>(comps) } else { s.w.pop.create(comps) };
            let cap = s.w.pop.capacity();
            if cap != last_cap {
                if cap < last_cap || i < cap0 {
                    vio!("C12", "capacity-arithmetic", "capacity went from {} to {} at len {} (requested {})", last_cap, cap, i + 1, cap0);
                }
                st.growth_steps += 1;
                last_cap = cap;
            }
            if cap < i + 1 || cap > (1 << 24) {
                vio!("C12", "capacity-arithmetic", "capacity {} at len {}", cap, i + 1);
            }
            s.ev_created.push(s.handles.len() as u32);
            s.handles.push(e);
            s.alive.push(true);
            s.round.push(0);
            s.n_alive += 1;
        }
        Ok(())
    }));
    match r {
        Ok(r) => r?,
        Err(p) => vio!("C12", "create-fails-below-limit", "a create among the first {} (from capacity {}) panicked: {}", n, cap0, panic_msg(&p)),
    }
    st.entities_created += n as u64;
    check_distinct(&s, st, "after the fill")?;
    sweep(&mut s, "after the fill", st)?;
    check_events(&mut s, "after the fill", st)?;

    // phase 2: overwrite every third entity through a query, every other third through the slice
    let r = catch_unwind(AssertUnwindSafe(|| {
        ecs_iter!(s.w, |u: &Uid, d: &mut Dat, _e: &Entity<Pop>| { if u.0 % 3 == 0 { d.0 = mix(u.0, 1); } });
        let sl = s.w.pop.get_all_slices_mut();
        for k in 0..sl.uid.len() {
            if sl.uid[k].0 % 3 == 1 {
                sl.dat[k].0 = mix(sl.uid[k].0, 1);
            }
        }
    }));
    if let Err(p) = r {
        vio!("C02", "write-panicked", "a whole-population write panicked: {}", panic_msg(&p));
    }
    for i in 0..n {
        if (i as u32 + 1) % 3 != 2 {
            s.round[i] = 1;
        }
    }
    sweep(&mut s, "after the writes", st)?;

    // phase 3: scattered destroys (every entity with i % 3 == 1), four key kinds; each hands back the entity's own values
    let r = catch_unwind(AssertUnwindSafe(|| -> Result<(), Vio> {
        for i in (0..n).filter(|i| i % 3 == 1) {
            let e = s.handles[i];
            let uid = i as u32 + 1;
            let want = (uid, mix(uid, s.round[i] as u32));
            let got: Option<Option<(u32, u64)>> = match (i / 3) % 4 {
                0 => s.w.destroy(e).map(|c| Some((c.uid.0, c.dat.0))),
                1 => s.w.pop.destroy(e.into_any()).map(|c| Some((c.uid.0, c.dat.0))),
                2 => s.w.destroy(e.into_any()).map(|_| None),
                _ => {
                    let d = match s.w.to_direct(e) {
                        Some(d) => d,
                        None => vio!("C01,C09", "live-handle-rejected:to_direct", "to_direct refuses live uid {} during the destroy phase", uid),
                    };
                    s.w.destroy(d).map(|c| Some((c.uid.0, c.dat.0)))
                }
            };
            match got {
                None => vio!("C01", "live-handle-rejected:destroy", "destroy of live uid {} ({:?}) returned None (key kind {})", uid, e, (i / 3) % 4),
                Some(Some(g)) if g != want => vio!("C02", "destroy-returned-wrong-values", "destroy of uid {} returned {:?}, expected {:?}", uid, g, want),
                _ => {}
            }
            s.alive[i] = false;
            s.ev_destroyed.push(i as u32);
            s.n_alive -= 1;
            if s.w.pop.len() != s.n_alive {
                vio!("C12", "len-after-destroy", "len {} after destroying uid {}, expected {}", s.w.pop.len(), uid, s.n_alive);
            }
            st.entities_destroyed += 1;
        }
        Ok(())
    }));
    match r {
        Ok(r) => r?,
        Err(p) => vio!("C01", "destroy-panicked", "a destroy of a live entity panicked: {}", panic_msg(&p)),
    }
    let cap_after_fill = s.w.pop.capacity();
    sweep(&mut s, "after the scattered destroys", st)?;
    check_events(&mut s, "after the scattered destroys (nothing cleared yet)", st)?;
    // clear at archetype level: the entities stay, the logs are empty, the small archetype's log is untouched
    clear_events(&mut s, false);
    check_events(&mut s, "after the archetype-level clear", st)?;
    sweep(&mut s, "after the archetype-level clear", st)?;

    // phase 4: ecs_iter_destroy! - every entity with uid % 3 == 0 goes (that is i % 3 == 2), the rest stays
    let before = s.n_alive;
    let mut visited = 0usize;
    let mut flagged = 0usize;
    let r = catch_unwind(AssertUnwindSafe(|| {
        ecs_iter_destroy!(s.w, |u: &Uid, _d: &Dat, _e: &Entity<Pop>| {
            visited += 1;
            if u.0 % 3 == 0 { flagged += 1; EcsStepDestroy::ContinueDestroy } else { EcsStepDestroy::Continue }
        });
    }));
    if let Err(p) = r {
        vio!("C07", "iter-destroy-panicked", "ecs_iter_destroy! over {} entities panicked: {}", before, panic_msg(&p));
    }
    if visited != before {
        vio!("C07", "wrong-number-visited", "ecs_iter_destroy! ran its closure {} times for {} live entities", visited, before);
    }
    for i in 0..n {
        if s.alive[i] && (i as u32 + 1) % 3 == 0 {
            s.alive[i] = false;
            s.ev_destroyed.push(i as u32);
            s.n_alive -= 1;
        }
    }
    st.entities_destroyed += flagged as u64;
    if s.w.pop.len() != s.n_alive || flagged != before - s.n_alive {
        vio!("C07", "wrong-number-destroyed", "ecs_iter_destroy! flagged {} entities, len went from {} to {}, expected {}", flagged, before, s.w.pop.len(), s.n_alive);
    }
    sweep(&mut s, "after ecs_iter_destroy!", st)?;
    check_events(&mut s, "after ecs_iter_destroy! (only destroyed events pending)", st)?;
    clear_events(&mut s, true);
    check_events(&mut s, "after the world-level clear", st)?;

    // phase 4b (C10 at scale): a closure that panics in the middle of a destroying pass - everything flagged before the panic
    // is gone, everything else (the entity being visited included) is untouched, and the world keeps working
    {
        let before = s.n_alive;
        let stop_at = before / 2;
        let mut seen = 0usize;
        let mut flagged_uids: Vec<u32> = Vec::new();
        let r = catch_unwind(AssertUnwindSafe(|| {
            ecs_iter_destroy!(s.w, |u: &Uid, _e: &Entity<Pop>| {
                seen += 1;
                if seen > stop_at {
                    panic!("population: injected closure panic");
                }
                if seen % 5 == 0 { flagged_uids.push(u.0); EcsStepDestroy::ContinueDestroy } else { EcsStepDestroy::Continue }
            });
        }));
        match r {
            Ok(()) if before > 0 && stop_at < before => vio!("C10", "injected-panic-swallowed", "the closure panic at invocation {} of {} did not propagate", stop_at + 1, before),
            Ok(()) => {}
            Err(p) => {
                let m = panic_msg(&p);
                if !m.contains("injected closure panic") {
                    vio!("C10", "different-panic", "ecs_iter_destroy! with a panicking closure raised '{}' instead of the injected panic", m);
                }
            }
        }
        for u in &flagged_uids {
            let i = *u as usize - 1;
            if s.alive[i] {
                s.alive[i] = false;
                s.ev_destroyed.push(i as u32);
                s.n_alive -= 1;
            }
        }
        st.entities_destroyed += flagged_uids.len() as u64;
        if s.w.pop.len() != s.n_alive {
            vio!("C10,C07", "panic-left-wrong-population", "after the closure panic at invocation {}: {} entities flagged before it, len {} (expected {})", stop_at + 1, flagged_uids.len(), s.w.pop.len(), s.n_alive);
        }
        sweep(&mut s, "after a closure panic in the middle of ecs_iter_destroy!", st).map_err(|mut v| { v.prop = format!("C10,{}", v.prop); v })?;
        check_events(&mut s, "after a closure panic in the middle of ecs_iter_destroy!", st).map_err(|mut v| { v.prop = format!("C10,{}", v.prop); v })?;
    }

    // phase 5: refill to the old population without growth: every freed position is reusable, no handle comes back
    let missing = n - s.n_alive;
    let r = catch_unwind(AssertUnwindSafe(|| -> Result<(), Vio> {
        for k in 0..missing {
            let uid = (n + k) as u32 + 1;
            let comps = (Uid(uid), Dat(mix(uid, 0)));
            let e = match s.w.create_within_capacity::<Pop>(comps) {
                Ok(e) => e,
                Err(_) => vio!("C12", "freed-position-not-reusable", "refill {} of {}: create_within_capacity refuses with len {} capacity {}", k + 1, missing, s.w.pop.len(), s.w.pop.capacity()),
            };
            s.ev_created.push(s.handles.len() as u32);
            s.handles.push(e);
            s.alive.push(true);
            s.round.push(0);
            s.n_alive += 1;
        }
        Ok(())
    }));
    match r {
        Ok(r) => r?,
        Err(p) => vio!("C12", "create-fails-below-limit", "a refilling create panicked: {}", panic_msg(&p)),
    }
    st.entities_created += missing as u64;
    st.refills_without_growth += missing as u64;
    if s.w.pop.capacity() != cap_after_fill || s.w.pop.len() != n {
        vio!("C12", "capacity-changed-by-refill", "refill: capacity {} -> {}, len {}", cap_after_fill, s.w.pop.capacity(), s.w.pop.len());
    }
    check_distinct(&s, st, "after the refill")?;
    sweep(&mut s, "after the refill", st)?;
    check_events(&mut s, "after the refill", st)?;

    // phase 6: clone - the same answers for the whole population, then independence
    let c = match catch_unwind(AssertUnwindSafe(|| s.w.clone())) {
        Ok(c) => c,
        Err(p) => vio!("C13", "clone-panicked", "clone of a world with {} entities panicked: {}", n, panic_msg(&p)),
    };
    if c.pop.len() != s.w.pop.len() || c.pop.capacity() != s.w.pop.capacity() || c.pop.version() != s.w.pop.version() {
        vio!("C13", "clone-differs", "clone: len {} / {}, capacity {} / {}", c.pop.len(), s.w.pop.len(), c.pop.capacity(), s.w.pop.capacity());
    }
    let orig = std::mem::replace(&mut s.w, c);
    sweep(&mut s, "in the clone", st).map_err(|mut v| { v.prop = format!("C13,{}", v.prop); v })?;
    check_events(&mut s, "in the clone (same pending events)", st).map_err(|mut v| { v.prop = format!("C13,{}", v.prop); v })?;
    // destroy everything in the clone; the original must not notice
    let r = catch_unwind(AssertUnwindSafe(|| {
        let mut k = 0usize;
        ecs_iter_destroy!(s.w, |_e: &Entity<Pop>| { k += 1; EcsStepDestroy::ContinueDestroy });
        k
    }));
    match r {
        Ok(k) if k == n && s.w.pop.len() == 0 => {}
        Ok(k) => vio!("C07", "wrong-number-destroyed", "emptying the clone: {} visited, len {} left", k, s.w.pop.len()),
        Err(p) => vio!("C07", "iter-destroy-panicked", "emptying the clone panicked: {}", panic_msg(&p)),
    }
    st.entities_destroyed += n as u64;
    s.w = orig;
    check_events(&mut s, "in the original after emptying the clone", st).map_err(|mut v| { v.prop = format!("C13,{}", v.prop); v })?;
    sweep(&mut s, "in the original after emptying the clone", st).map_err(|mut v| { v.prop = format!("C13,{}", v.prop); v })?;
    Ok(())
}

/// The all-zero-sized archetype `Zst = (Zmk, Zun)`: the same scripted history at population `n`, identity by handle only,
/// value accounting by the construction / drop counters of `Zmk`.
fn zst_one(n: usize, cap0: usize, st: &mut PopStats) -> Result<(), Vio> {
    st.zst_worlds += 1;
    ZC.with(|c| c.set((0, 0)));
    let balance = |at: &str, owned: i64| -> Result<(), Vio> {
        let (made, dropped) = ZC.with(|c| c.get());
        if made - dropped != owned {
            vio!("C04", "zst-balance", "{}: {} zero-sized values constructed or cloned, {} dropped, but the worlds own {}", at, made, dropped, owned);
        }
        Ok(())
    };
    let r = catch_unwind(AssertUnwindSafe(|| -> Result<(), Vio> {
        let mut w = PW::with_capacity(PWCapacity { oth: 0, pop: 0, zst: cap0 });
        if w.zst.capacity() < cap0 {
            vio!("C12", "capacity-below-requested", "all-ZST archetype: with_capacity({}) gives {}", cap0, w.zst.capacity());
        }
        let mut hs: Vec<(Entity<Zst>, bool)> = Vec::new();
        let mut alive = 0usize;
        let sweep = |w: &mut PW, hs: &Vec<(Entity<Zst>, bool)>, alive: usize, at: &str| -> Result<(), Vio> {
            if w.zst.len() != alive || w.zst.is_empty() != (alive == 0) || w.zst.capacity() < alive {
                vio!("C12", "len", "all-ZST archetype {}: len {} capacity {} with {} alive", at, w.zst.len(), w.zst.capacity(), alive);
            }
            let l0 = w.zst.entities().len();
            let l1 = w.zst.get_slice::<Zmk>().len();
            let l2 = w.zst.get_slice_mut::<Zun>().len();
            let l3 = { let b = w.zst.borrow_slice::<Zmk>(); b.len() };
            let l4 = { let b = w.zst.borrow_slice_mut::<Zun>(); b.len() };
            let (l5, l6) = { let s = w.zst.get_all_slices_mut(); (s.entity.len().max(s.zmk.len()).max(s.zun.len()), s.entity.len().min(s.zmk.len()).min(s.zun.len())) };
            let lens = [l0, l1, l2, l3, l4, l5, l6];
            if lens.iter().any(|l| *l != alive) {
                vio!("C06,C12", "slice-length", "all-ZST archetype {}: slice lengths {:?} with {} alive", at, lens, alive);
            }
            for (i, (e, a)) in hs.iter().enumerate() {
                let any = e.into_any();
                if *a {
                    let idx = w.zst.resolve(*e);
                    let ok = w.contains(*e) && w.contains(any) && idx.map(|x| x < alive && w.zst.entities()[x] == *e).unwrap_or(false) && w.view(*e).is_some() && w.zst.borrow(any).is_some()
                        && ecs_find!(w, any, |_z: &Zmk, me: &Entity<Zst>| *me) == Some(*e) && w.to_direct(*e).map(|d| w.zst.resolve(d) == idx).unwrap_or(false);
                    if !ok {
                        vio!("C01", "live-handle-rejected", "all-ZST archetype {}: live entity {} ({:?}) is refused or mis-resolved (resolve {:?})", at, i, e, idx);
                    }
                } else if w.contains(*e) || w.contains(any) || w.zst.resolve(*e).is_some() || w.view(*e).is_some() || ecs_find!(w, any, |_z: &Zun| ()).is_some() || w.to_direct(any).is_some() {
                    vio!("C01", "stale-handle-accepted", "all-ZST archetype {}: destroyed entity {} ({:?}) is accepted", at, i, e);
                }
            }
            for form in 0..5 {
                let mut seen: Vec<Entity<Zst>> = Vec::with_capacity(alive);
                match form {
                    0 => ecs_iter!(w, |e: &Entity<Zst>, _z: &Zmk| { seen.push(*e); }),
                    1 => ecs_iter_borrow!(w, |e: &Entity<Zst>, _z: &mut Zun| { seen.push(*e); }),
                    2 => { for (e, _z, _u) in w.zst.iter() { seen.push(*e); } }
                    3 => { for (e, _z, _u) in w.zst.iter_mut() { seen.push(*e); } }
                    _ => ecs_iter!(w, |e: &EntityAny, _z: &Zmk, _u: &Zun| { if let Ok(t) = Entity::<Zst>::try_from(*e) { seen.push(t); } }),
                }
                let n_seen = seen.len();
                seen.sort_unstable_by_key(|e| e.into_any().raw());
                seen.dedup();
                let mut want: Vec<Entity<Zst>> = hs.iter().filter(|h| h.1).map(|h| h.0).collect();
                want.sort_unstable_by_key(|e| e.into_any().raw());
                if n_seen != alive || seen != want {
                    vio!("C06", "iteration-misses-entities", "all-ZST archetype {}: iteration form {} produced {} items ({} distinct) with {} alive", at, form, n_seen, seen.len(), alive);
                }
            }
            Ok(())
        };
        for i in 0..n {
            let e = if i < cap0 {
                match w.create_within_capacity::<Zst>((Zmk::new(), Zun)) { Ok(e) => e, Err(_) => vio!("C12", "within-capacity-refuses-with-room", "all-ZST archetype: create_within_capacity refused entity {} of {} requested", i + 1, cap0) }
            } else if i % 2 == 0 { w.create::<Zst>((Zmk::new(), Zun)) } else { w.zst.create((Zmk::new(), Zun)) };
            hs.push((e, true));
            alive += 1;
        }
        balance("after the fill", alive as i64)?;
        sweep(&mut w, &hs, alive, "after the fill")?;
        st.zst_sweeps += 1;
        for i in (0..n).filter(|i| i % 3 == 1) {
            let got = match (i / 3) % 3 { 0 => w.destroy(hs[i].0).is_some(), 1 => w.zst.destroy(hs[i].0.into_any()).is_some(), _ => w.destroy(hs[i].0.into_any()).is_some() };
            if !got {
                vio!("C01", "live-handle-rejected:destroy", "all-ZST archetype: destroy of live entity {} returned None", i);
            }
            hs[i].1 = false;
            alive -= 1;
        }
        balance("after the scattered destroys (returned components dropped)", alive as i64)?;
        sweep(&mut w, &hs, alive, "after the scattered destroys")?;
        st.zst_sweeps += 1;
        // keep what a destroy hands back: it must not be dropped by the world as well
        if let Some(i) = (0..n).find(|i| hs[*i].1) {
            let kept = w.destroy(hs[i].0);
            hs[i].1 = false;
            alive -= 1;
            balance("while holding the components a destroy returned", alive as i64 + 1)?;
            drop(kept);
            balance("after dropping the components a destroy returned", alive as i64)?;
        }
        let before = alive;
        let mut k = 0usize;
        let mut visited = 0usize;
        ecs_iter_destroy!(w, |_e: &Entity<Zst>, _z: &Zmk| { visited += 1; k += 1; if k % 2 == 0 { EcsStepDestroy::ContinueDestroy } else { EcsStepDestroy::Continue } });
        if visited != before || w.zst.len() != before - before / 2 {
            vio!("C07", "wrong-number-destroyed", "all-ZST archetype: ecs_iter_destroy! visited {} of {}, len {} afterwards, expected {}", visited, before, w.zst.len(), before - before / 2);
        }
        for h in hs.iter_mut().filter(|h| h.1) {
            if !w.contains(h.0) { h.1 = false; alive -= 1; }
        }
        if alive != w.zst.len() {
            vio!("C07,C12", "len", "all-ZST archetype: {} handles still accepted after ecs_iter_destroy!, len {}", alive, w.zst.len());
        }
        balance("after ecs_iter_destroy!", alive as i64)?;
        sweep(&mut w, &hs, alive, "after ecs_iter_destroy!")?;
        st.zst_sweeps += 1;
        let cap = w.zst.capacity();
        while w.zst.len() < cap.min(n) {
            match w.create_within_capacity::<Zst>((Zmk::new(), Zun)) {
                Ok(e) => { hs.push((e, true)); alive += 1; }
                Err(_) => vio!("C12", "freed-position-not-reusable", "all-ZST archetype: create_within_capacity refuses with len {} capacity {}", w.zst.len(), cap),
            }
        }
        if w.zst.capacity() != cap {
            vio!("C12", "capacity-changed-by-refill", "all-ZST archetype: capacity {} -> {} on a refill", cap, w.zst.capacity());
        }
        let mut raw: Vec<(u32, u32)> = hs.iter().map(|h| h.0.into_any().raw()).collect();
        raw.sort_unstable();
        if raw.windows(2).any(|p| p[0] == p[1]) {
            vio!("C08,C01,C14", "handle-reissued", "all-ZST archetype: a handle was issued twice");
        }
        balance("after the refill", alive as i64)?;
        sweep(&mut w, &hs, alive, "after the refill")?;
        st.zst_sweeps += 1;
        let mut c = w.clone();
        balance("after clone (one Clone::clone per live value)", 2 * alive as i64)?;
        sweep(&mut c, &hs, alive, "in the clone")?;
        st.zst_sweeps += 1;
        drop(w);
        balance("after dropping the original", alive as i64)?;
        sweep(&mut c, &hs, alive, "in the clone after dropping the original")?;
        drop(c);
        balance("after dropping both worlds", 0)?;
        st.zst_values_balanced += ZC.with(|c| c.get().0) as u64;
        Ok(())
    }));
    match r {
        Ok(r) => r,
        Err(p) => vio!("C01,C04,C06,C12", "zst-panicked", "all-ZST archetype (population {}, capacity {}): an operation panicked: {}", n, cap0, panic_msg(&p)),
    }
}

/// No handle was ever issued twice (sorting the raw bits of everything issued so far).
fn check_distinct(s: &St, st: &mut PopStats, at: &str) -> Result<(), Vio> {
    let mut raw: Vec<(u32, u32)> = s.handles.iter().map(|e| e.into_any().raw()).collect();
    raw.extend(s.others.iter().map(|e| e.into_any().raw()));
    raw.sort_unstable();
    st.handles_compared_for_reissue += raw.len() as u64;
    for w in raw.windows(2) {
        if w[0] == w[1] {
            vio!("C08,C01,C14", "handle-reissued", "{}: the handle {:?} was issued twice", at, w[0]);
        }
    }
    Ok(())
}

pub fn run_pop(sizes: &[usize]) -> (Vec<Vio>, PopStats) {
    let mut st = PopStats { sizes: sizes.to_vec(), ..Default::default() };
    let mut out: Vec<Vio> = Vec::new();
    // the archetype whose columns are all zero-sized: every small population (the early-exit shapes) and two large ones
    for n in (0..=9usize).chain([64, 1000, 70001]) {
        for cap0 in [0usize, 1, n] {
            if let Err(mut v) = zst_one(n, cap0, &mut st) {
                v.msg = format!("{} [all-ZST population {}, initial capacity {}]", v.msg, n, cap0);
                if !out.iter().any(|o| o.oracle == v.oracle) {
                    out.push(v);
                }
            }
        }
    }
    for &n in sizes {
        // through every growth step from nothing, and with the exact capacity requested up front
        for cap0 in [0usize, n] {
            if let Err(mut v) = one(n, cap0, &mut st) {
                v.msg = format!("{} [population {}, initial capacity {}]", v.msg, n, cap0);
                if !out.iter().any(|o| o.oracle == v.oracle) {
                    out.push(v);
                }
            }
        }
    }
    (out, st)
}
