//! Write-ahead journal: before a history is executed it is written to a per-thread file, so that a
//! non-unwinding crash (abort, SIGSEGV) of the subject can be attributed to the history that caused it.

use std::cell::RefCell;
use std::fs::{File, OpenOptions};
use std::os::unix::fs::FileExt;
use std::path::PathBuf;
use std::sync::atomic::{AtomicU64, Ordering};
use std::sync::OnceLock;

use crate::sys::Op;

static DIR: OnceLock<Option<PathBuf>> = OnceLock::new();
static NEXT: AtomicU64 = AtomicU64::new(0);

thread_local! {
    static FILE: RefCell<Option<File>> = RefCell::new(None);
}

pub fn init(dir: Option<PathBuf>) {
    if let Some(d) = &dir {
        let _ = std::fs::create_dir_all(d);
        // stale journals from an earlier run must not be mistaken for this run's
        if let Ok(rd) = std::fs::read_dir(d) {
            for e in rd.flatten() {
                let _ = std::fs::remove_file(e.path());
            }
        }
    }
    let _ = DIR.set(dir);
}

pub fn write(hist: &[Op]) {
    let dir = match DIR.get() {
        Some(Some(d)) => d,
        _ => return,
    };
    FILE.with(|f| {
        let mut f = f.borrow_mut();
        if f.is_none() {
            let n = NEXT.fetch_add(1, Ordering::Relaxed);
            *f = OpenOptions::new().create(true).write(true).truncate(true).open(dir.join(format!("journal.{}", n))).ok();
        }
        if let Some(file) = f.as_ref() {
            let body = serde_json::to_vec(hist).unwrap_or_default();
            let mut rec = Vec::with_capacity(body.len() + 8);
            rec.extend_from_slice(&(body.len() as u64).to_le_bytes());
            rec.extend_from_slice(&body);
            let _ = file.write_all_at(&rec, 0);
        }
    });
}

pub fn read(path: &std::path::Path) -> Option<Vec<Op>> {
    let data = std::fs::read(path).ok()?;
    if data.len() < 8 {
        return None;
    }
    let n = u64::from_le_bytes(data[..8].try_into().ok()?) as usize;
    serde_json::from_slice(data.get(8..8 + n)?).ok()
}
