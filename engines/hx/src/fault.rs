//! Fault actions (C10): a panic injected at every point where user code is called back, then the
//! history continues with the normal alphabet and every other oracle keeps being evaluated.

use std::panic::{catch_unwind, AssertUnwindSafe};

use gecs::prelude::*;

use crate::cols::*;
use crate::sys::*;
use crate::world::*;
use crate::{ensure, vio};

pub const FAULT_MSG_CLOSURE: &str = "hx-injected closure fault";

pub fn apply_fault(sys: &mut Sys, op: &Op) -> R<Option<usize>> {
    match *op {
        Op::FaultQuery { w, a, mac, k, dec } if a >= 200 => {
            fault_query_world(sys, w as usize, a - 200, mac, k as usize, dec)?;
            Ok(Some(w as usize))
        }
        Op::FaultQuery { w, a, mac, k, dec } => {
            with_arch!(a as usize, A => fault_query::<A>(sys, w as usize, mac, k as usize, dec))?;
            Ok(Some(w as usize))
        }
        Op::FaultClone { w, k } => {
            fault_clone(sys, w as usize, k as u32)?;
            Ok(Some(w as usize))
        }
        Op::FaultCloneFrom { w, k } => {
            fault_clone_from(sys, w as usize, k as u32)?;
            Ok(Some(w as usize))
        }
        Op::FaultDestroyDrop { w, a, i, k } => {
            with_arch!(a as usize, A => fault_destroy_drop::<A>(sys, w as usize, i as usize, k as u32))?;
            Ok(Some(w as usize))
        }
        Op::FaultIterDestroyDrop { w, a, k } => {
            with_arch!(a as usize, A => fault_iter_destroy_drop::<A>(sys, w as usize, k as u32))?;
            Ok(Some(w as usize))
        }
        Op::DropWorld { w, k } => {
            drop_world(sys, w as usize, k as u32)?;
            Ok(Some(w as usize))
        }
        Op::FaultCreateInto { w, a, via, within } => {
            let w = w as usize;
            let d0 = sys.dumps(w);
            let world = sys.worlds[w].as_mut().unwrap();
            let r = catch_unwind(AssertUnwindSafe(|| with_arch!(a as usize, A => <A as Arch>::create_bomb(world, via, within))));
            match r {
                Ok(()) => return vio!("C10", "fault-point-not-reached", "create with a value whose Into<Components> panics returned normally"),
                Err(p) => {
                    let msg = panic_msg(&p);
                    ensure!(msg.contains(FAULT_MSG_INTO), "C10", "other-panic-during-create", "create panicked with '{}' instead of the conversion's panic", msg);
                }
            }
            sys.c.faults_fired += 1;
            // nothing was created: the world must be exactly what it was
            let d1 = sys.dumps(w);
            ensure!(d0 == d1, "C10", "create-panic-mutated-world", "a panic in the Into<Components> conversion of create ({:?}, within_capacity = {}) changed the archetype: before {:?} after {:?}", via, within, d0[a as usize], d1[a as usize]);
            Ok(Some(w))
        }
        _ => unreachable!(),
    }
}

fn owned(sys: &Sys, w: usize) -> (i64, i64) {
    let m = &sys.models[w];
    let mut t = 0;
    let mut z = 0;
    for a in 0..NARCH {
        let n = m.order[a].len() as i64;
        t += n * tracked_cols(a);
        z += n * zed_cols(a);
    }
    (t, z)
}

/// After an unwind no RefCell guard may remain: every column of archetype A can be borrowed mutably.
fn check_no_guard_leaked<A: Arch>(sys: &mut Sys, w: usize, after: &str) -> R {
    let world = sys.worlds[w].as_mut().unwrap();
    let r = catch_unwind(AssertUnwindSafe(|| A::borrow_all_mut(world)));
    match r {
        Ok(()) => Ok(()),
        Err(p) => vio!("C11", "borrow-leaked-after-unwind", "after {} a column of {} can no longer be mutably borrowed: {}", after, A::NAME, panic_msg(&p)),
    }
}

fn fault_query<A: Arch>(sys: &mut Sys, w: usize, mac: u8, k: usize, dec: u8) -> R {
    let a = A::IDX;
    let order = sys.models[w].order[a].clone();
    let d0 = sys.dump_of(w, a);
    if mac == 5 {
        // runtime borrow conflict raised inside gecs while a query runs
        let world = sys.worlds[w].as_ref().unwrap();
        let r = catch_unwind(AssertUnwindSafe(|| A::borrow_conflict(world)));
        ensure!(r.is_err() == !order.is_empty(), "C11", "borrow-conflict-outcome", "ecs_iter_borrow!(&Key) under a held borrow_slice_mut::<Key>() on {} with {} entities: panicked = {}", A::NAME, order.len(), r.is_err());
        sys.c.faults_fired += r.is_err() as u64;
        ensure!(d0 == sys.dump_of(w, a), "C10", "query-panic-mutated-world", "a borrow-conflict panic changed {}", A::NAME);
        return check_no_guard_leaked::<A>(sys, w, "a borrow-conflict panic");
    }
    let key = if mac < 2 { Some(Hk::<A>::E(typed::<A>(sys.models[w].live[&order[0]].any))) } else { None };
    let mut visited: Vec<Row> = Vec::new();
    let world = sys.worlds[w].as_mut().unwrap();
    let res = catch_unwind(AssertUnwindSafe(|| {
        let mut cb = |row: &Row| -> u8 {
            visited.push(row.clone());
            if visited.len() == k {
                panic!("{}", FAULT_MSG_CLOSURE);
            }
            dec
        };
        A::query_cb(world, mac, key, &mut cb)
    }));
    match res {
        Ok(()) => return vio!("C06", "fault-point-not-reached", "query macro {} over {} with {} live entities invoked its closure only {} times (fault planned at invocation {})", mac, A::NAME, order.len(), visited.len(), k),
        Err(p) => {
            let msg = panic_msg(&p);
            ensure!(msg.contains(FAULT_MSG_CLOSURE), "C10", "other-panic-during-query", "query macro {} over {} panicked with '{}' instead of propagating the closure's panic", mac, A::NAME, msg);
        }
    }
    sys.c.faults_fired += 1;
    // effects: for iter_destroy, every entity visited BEFORE the panicking invocation whose decision
    // was a destroy is gone; the one being visited when the closure panicked is not.
    if mac == 4 && (dec == STEP_CONTINUE_DESTROY) {
        for row in &visited[..visited.len() - 1] {
            let b = row.bits.unwrap();
            ensure!(sys.models[w].live.contains_key(&b), "C07", "visited-non-live", "ecs_iter_destroy! visited {:?} which is not alive", b);
            sys.models[w].remove(b);
        }
    } else {
        ensure!(d0 == sys.dump_of(w, a), "C10", "query-panic-mutated-world", "a panic in the closure of query macro {} changed the structure of {}", mac, A::NAME);
    }
    check_no_guard_leaked::<A>(sys, w, "a closure panic")
}

/// The closure of a multi-archetype query panics at its k-th invocation (counted across archetypes).
fn fault_query_world(sys: &mut Sys, w: usize, qf: u8, mac: u8, k: usize, dec: u8) -> R {
    let d0 = sys.dumps(w);
    let mut visited: Vec<Row> = Vec::new();
    let world = sys.worlds[w].as_mut().unwrap();
    let res = catch_unwind(AssertUnwindSafe(|| {
        if mac == 4 {
            let mut cb = |row: &Row| -> u8 {
                visited.push(row.clone());
                if visited.len() == k {
                    panic!("{}", FAULT_MSG_CLOSURE);
                }
                dec
            };
            wq_iter_destroy(world, qf, &mut cb)
        } else {
            let mut cb = |row: &Row| -> bool {
                visited.push(row.clone());
                if visited.len() == k {
                    panic!("{}", FAULT_MSG_CLOSURE);
                }
                false
            };
            wq_iter_cb(world, qf, mac == 3, &mut cb)
        }
    }));
    match res {
        Ok(()) => return vio!("C06", "fault-point-not-reached", "multi-archetype query macro {} invoked its closure only {} times (fault planned at invocation {})", mac, visited.len(), k),
        Err(p) => {
            let msg = panic_msg(&p);
            ensure!(msg.contains(FAULT_MSG_CLOSURE), "C10", "other-panic-during-query", "multi-archetype query macro {} panicked with '{}' instead of propagating the closure's panic", mac, msg);
        }
    }
    sys.c.faults_fired += 1;
    if mac == 4 && dec == STEP_CONTINUE_DESTROY {
        for row in &visited[..visited.len() - 1] {
            let b = row.bits.unwrap();
            ensure!(sys.models[w].live.contains_key(&b), "C07", "visited-non-live", "ecs_iter_destroy! visited {:?} which is not alive", b);
            sys.models[w].remove(b);
        }
    } else {
        ensure!(d0 == sys.dumps(w), "C10", "query-panic-mutated-world", "a panic in the closure of multi-archetype query macro {} changed the structure of the world", mac);
    }
    for a in sys.sc.archs.clone() {
        with_arch!(a as usize, A => check_no_guard_leaked::<A>(sys, w, "a closure panic in a multi-archetype query"))?;
    }
    Ok(())
}

fn fault_clone(sys: &mut Sys, w: usize, k: u32) -> R {
    let d0 = sys.dumps(w);
    let snap0 = reg_snapshot();
    reg_arm(FaultPlan { clone_at: Some(k), drop_at: None });
    let src = sys.worlds[w].as_ref().unwrap();
    let res = catch_unwind(AssertUnwindSafe(|| src.clone()));
    reg_disarm();
    match res {
        Ok(cl) => {
            drop(cl);
            let (t, _) = owned(sys, w);
            return vio!("C04", "clone-count", "world.clone() performed fewer than {} tracked Clone::clone calls although the world owns {} tracked values", k, t);
        }
        Err(p) => {
            let msg = panic_msg(&p);
            ensure!(msg.contains(FAULT_MSG_CLONE), "C10", "other-panic-during-clone", "clone() panicked with '{}'", msg);
        }
    }
    sys.c.faults_fired += 1;
    ensure!(d0 == sys.dumps(w), "C10", "clone-panic-mutated-source", "a panic inside clone() changed the source world");
    let snap1 = reg_snapshot();
    ensure!(snap1.double_drops == 0, "C10", "double-drop", "a panic inside clone() led to a double drop");
    let leaked = snap1.live as i64 - snap0.live as i64;
    let leaked_z = snap1.z_live - snap0.z_live;
    ensure!(leaked >= 0 && leaked_z >= 0, "C10", "dropped-while-alive", "a panic inside clone() dropped values of the source world");
    if leaked > 0 || leaked_z > 0 {
        let sig = "leak:clone-panic";
        if sys.is_known("C10", sig) {
            sys.note_known("C10", sig);
            sys.c.leak_known += 1;
        } else {
            return vio!("C10", sig, "a panic in the {}-th Clone::clone during world.clone() leaked {} tracked and {} zero-sized component values (never dropped)", k, leaked, leaked_z);
        }
        sys.leaked_tracked += leaked;
        sys.leaked_z += leaked_z;
    }
    for a in sys.sc.archs.clone() {
        with_arch!(a as usize, A => check_no_guard_leaked::<A>(sys, w, "a panic inside clone()"))?;
    }
    Ok(())
}

/// `target.clone_from(&source)` with the k-th tracked `Clone::clone` panicking. The target is a scratch world of the same shape
/// and population (an unfaulted clone taken first), so an implementation that reuses the target's storage has something to
/// release and something to overwrite. Afterwards: the source is untouched, the target is still a world that can be dropped -
/// nothing dropped twice, nothing of the source dropped; the only tolerated loss is the known partial-clone leak.
fn fault_clone_from(sys: &mut Sys, w: usize, k: u32) -> R {
    let d0 = sys.dumps(w);
    let src = sys.worlds[w].as_ref().unwrap();
    let mut target = match catch_unwind(AssertUnwindSafe(|| src.clone())) {
        Ok(t) => t,
        Err(p) => return vio!("C13,C10", "unexpected-panic:clone", "an unfaulted clone() panicked: {}", panic_msg(&p)),
    };
    let snap0 = reg_snapshot();
    reg_arm(FaultPlan { clone_at: Some(k), drop_at: None });
    let res = catch_unwind(AssertUnwindSafe(|| target.clone_from(src)));
    reg_disarm();
    match res {
        Ok(()) => {
            drop(target);
            let (t, _) = owned(sys, w);
            return vio!("C04", "clone-count", "clone_from performed fewer than {} tracked Clone::clone calls although the source owns {} tracked values", k, t);
        }
        Err(p) => {
            let msg = panic_msg(&p);
            ensure!(msg.contains(FAULT_MSG_CLONE), "C10", "other-panic-during-clone", "clone_from panicked with '{}'", msg);
        }
    }
    sys.c.faults_fired += 1;
    ensure!(d0 == sys.dumps(w), "C10", "clone-panic-mutated-source", "a panic inside clone_from changed the source world");
    // the target must still be a droppable world
    let dropped = catch_unwind(AssertUnwindSafe(|| drop(target)));
    ensure!(dropped.is_ok(), "C10", "target-undroppable-after-clone-from-panic", "dropping the target of a clone_from that panicked panicked itself");
    let snap1 = reg_snapshot();
    ensure!(snap1.double_drops == 0, "C10", "double-drop", "a panic inside clone_from led to a double drop (when the target was dropped afterwards)");
    let (t, z) = owned(sys, w);
    // snap0 counted the target's own values (one per value of the source); they are gone now
    let leaked = snap1.live as i64 - (snap0.live as i64 - t);
    let leaked_z = snap1.z_live - (snap0.z_live - z);
    ensure!(leaked >= 0 && leaked_z >= 0, "C10", "dropped-while-alive", "a panic inside clone_from (or dropping its target) dropped values of the source world: balance {} tracked, {} zero-sized", leaked, leaked_z);
    if leaked > 0 || leaked_z > 0 {
        let sig = "leak:clone-panic";
        if sys.is_known("C10", sig) {
            sys.note_known("C10", sig);
            sys.c.leak_known += 1;
        } else {
            return vio!("C10", sig, "a panic in the {}-th Clone::clone during clone_from leaked {} tracked and {} zero-sized component values (never dropped)", k, leaked, leaked_z);
        }
        sys.leaked_tracked += leaked;
        sys.leaked_z += leaked_z;
    }
    for a in sys.sc.archs.clone() {
        with_arch!(a as usize, A => check_no_guard_leaked::<A>(sys, w, "a panic inside clone_from"))?;
    }
    Ok(())
}

fn fault_destroy_drop<A: Arch>(sys: &mut Sys, w: usize, i: usize, k: u32) -> R {
    let a = A::IDX;
    let bits = sys.models[w].order[a][i];
    let any = sys.models[w].live[&bits].any;
    reg_arm(FaultPlan { clone_at: None, drop_at: Some(k) });
    let world = sys.worlds[w].as_mut().unwrap();
    // dynamic key at the world level: the removed tuple is dropped inside the generated code
    let res = catch_unwind(AssertUnwindSafe(|| A::x_destroy(world, Hk::Any(any), Via::World)));
    reg_disarm();
    match res {
        Ok(_) => return vio!("C04", "drop-count", "destroy(EntityAny) of an entity of {} dropped fewer than {} tracked values", A::NAME, k),
        Err(p) => {
            let msg = panic_msg(&p);
            ensure!(msg.contains(FAULT_MSG_DROP), "C10", "other-panic-during-destroy", "destroy panicked with '{}'", msg);
        }
    }
    sys.c.faults_fired += 1;
    // the entity was removed before its components were dropped
    sys.models[w].remove(bits);
    Ok(())
}

fn fault_iter_destroy_drop<A: Arch>(sys: &mut Sys, w: usize, k: u32) -> R {
    let mut visited: Vec<Row> = Vec::new();
    reg_arm(FaultPlan { clone_at: None, drop_at: Some(k) });
    let world = sys.worlds[w].as_mut().unwrap();
    let res = catch_unwind(AssertUnwindSafe(|| {
        let mut cb = |row: &Row| -> u8 {
            visited.push(row.clone());
            STEP_CONTINUE_DESTROY
        };
        A::iter_destroy(world, &mut cb)
    }));
    reg_disarm();
    match res {
        Ok(()) => return vio!("C04", "drop-count", "ecs_iter_destroy! destroying all of {} dropped fewer than {} tracked values", A::NAME, k),
        Err(p) => {
            let msg = panic_msg(&p);
            ensure!(msg.contains(FAULT_MSG_DROP), "C10", "other-panic-during-iter-destroy", "ecs_iter_destroy! panicked with '{}'", msg);
        }
    }
    sys.c.faults_fired += 1;
    // every visited entity (including the one whose tuple drop panicked) was removed before the panic
    for row in &visited {
        let b = row.bits.unwrap();
        ensure!(sys.models[w].live.contains_key(&b), "C07", "visited-non-live", "ecs_iter_destroy! visited {:?} which is not alive", b);
        sys.models[w].remove(b);
    }
    Ok(())
}

fn drop_world(sys: &mut Sys, w: usize, k: u32) -> R {
    let (t, z) = owned(sys, w);
    let world = sys.worlds[w].take().unwrap();
    let snap0 = reg_snapshot();
    if k > 0 {
        reg_arm(FaultPlan { clone_at: None, drop_at: Some(k) });
    }
    let res = catch_unwind(AssertUnwindSafe(move || drop(world)));
    reg_disarm();
    match (&res, k) {
        (Ok(()), 0) => {}
        (Err(p), 0) => return vio!("C04", "unexpected-panic:drop", "dropping the world panicked: {}", panic_msg(p)),
        (Ok(()), _) => return vio!("C04", "drop-count", "dropping the world dropped fewer than {} tracked values although it owns {}", k, t),
        (Err(p), _) => {
            let msg = panic_msg(p);
            ensure!(msg.contains(FAULT_MSG_DROP), "C10", "other-panic-during-drop", "dropping the world panicked with '{}'", msg);
            sys.c.faults_fired += 1;
        }
    }
    sys.models[w].dropped = true;
    for a in 0..NARCH {
        sys.models[w].order[a].clear();
    }
    sys.models[w].live.clear();
    let snap1 = reg_snapshot();
    ensure!(snap1.double_drops == 0 && snap1.z_underflow == 0, "C10", "double-drop", "dropping the world dropped a value twice");
    let leaked = t - (snap0.live as i64 - snap1.live as i64);
    let leaked_z = z - (snap0.z_live - snap1.z_live);
    ensure!(leaked >= 0 && leaked_z >= 0, "C10", "dropped-while-alive", "dropping world {} dropped {} more tracked values than it owned", w, -leaked);
    if leaked > 0 || leaked_z > 0 {
        let sig = "leak:drop-panic";
        if k > 0 && sys.is_known("C10", sig) {
            sys.note_known("C10", sig);
            sys.c.leak_known += 1;
        } else if k > 0 {
            return vio!("C10", sig, "a panic in the {}-th Drop::drop while the world was dropped leaked {} tracked and {} zero-sized component values", k, leaked, leaked_z);
        } else {
            return vio!("C04", "leak", "dropping the world left {} tracked and {} zero-sized component values alive", leaked, leaked_z);
        }
        sys.leaked_tracked += leaked;
        sys.leaked_z += leaked_z;
    }
    Ok(())
}
