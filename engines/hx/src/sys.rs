//! The system under exploration: real worlds + boring reference models, stepped in lockstep.

use std::collections::{BTreeMap, BTreeSet};
use std::panic::{catch_unwind, AssertUnwindSafe};

use gecs::__internal::VerifDump;
use gecs::prelude::*;
use serde::{Deserialize, Serialize};

use crate::cols::*;
use crate::world::*;

// ---------------------------------------------------------------------------------------------
// Violations
// ---------------------------------------------------------------------------------------------

#[derive(Clone, Debug, Serialize, Deserialize, PartialEq, Eq)]
pub struct Vio {
    /// Property id the failed oracle belongs to.
    pub prop: String,
    /// Stable signature of the oracle that failed (used to match known findings).
    pub oracle: String,
    pub msg: String,
}

pub type R<T = ()> = Result<T, Vio>;

#[macro_export]
macro_rules! vio {
    ($prop:expr, $oracle:expr, $($fmt:tt)*) => {
        Err($crate::sys::Vio { prop: $prop.to_string(), oracle: $oracle.to_string(), msg: format!($($fmt)*) })
    };
}

#[macro_export]
macro_rules! ensure {
    ($cond:expr, $prop:expr, $oracle:expr, $($fmt:tt)*) => {
        if !($cond) {
            return $crate::vio!($prop, $oracle, $($fmt)*);
        }
    };
}

/// Like `ensure!`, but only for oracles after whose failure the reference model can simply carry on: when the
/// property the oracle belongs to is not among the properties being decided, the failure is NOT turned into
/// a violation that cuts the path (it would hide what the selected property's own probes can see further
/// down that path); the oracle's own check reports it.
#[macro_export]
macro_rules! ensure_soft {
    ($sc:expr, $cond:expr, $prop:expr, $oracle:expr, $($fmt:tt)*) => {
        if !($cond) && $sc.want_any($prop) {
            return $crate::vio!($prop, $oracle, $($fmt)*);
        }
    };
}

thread_local! {
    static LAST_PANIC_LOC: std::cell::RefCell<String> = const { std::cell::RefCell::new(String::new()) };
}

/// Called by the process-wide panic hook.
pub fn note_panic_location(loc: String) {
    LAST_PANIC_LOC.with(|l| *l.borrow_mut() = loc);
}

/// Source location of the last panic raised on this thread ("" if unknown).
pub fn last_panic_location() -> String {
    LAST_PANIC_LOC.with(|l| l.borrow().clone())
}

/// True if the location lies in the library under test (the gecs runtime crate), not in the harness or in code the macros
/// expanded inside the harness.
pub fn location_in_library(loc: &str) -> bool {
    !loc.is_empty() && !loc.contains("/hx/src/") && !loc.contains("hx/build") && (loc.contains("src/archetype/") || loc.contains("src/entity.rs") || loc.contains("src/version.rs") || loc.contains("src/index.rs") || loc.contains("src/traits.rs") || loc.contains("src/util.rs") || loc.contains("src/iter.rs"))
}

pub fn panic_msg(p: &Box<dyn std::any::Any + Send>) -> String {
    if let Some(s) = p.downcast_ref::<&str>() {
        s.to_string()
    } else if let Some(s) = p.downcast_ref::<String>() {
        s.clone()
    } else {
        "<non-string panic payload>".to_string()
    }
}

/// Run `f`, turning an unexpected panic into a violation of `prop`.
pub fn guard<T>(prop: &str, what: &str, f: impl FnOnce() -> R<T>) -> R<T> {
    match catch_unwind(AssertUnwindSafe(f)) {
        Ok(r) => r,
        Err(p) => vio!(prop, format!("unexpected-panic:{}", what), "unexpected panic in {}: {}", what, panic_msg(&p)),
    }
}

// ---------------------------------------------------------------------------------------------
// Scenario and operations
// ---------------------------------------------------------------------------------------------

#[derive(Clone, Debug, Serialize, Deserialize)]
pub struct Scenario {
    pub name: String,
    /// Active archetype indices (others exist in the world but stay empty).
    pub archs: Vec<u8>,
    /// Initial capacity of each active archetype.
    pub caps: Vec<usize>,
    pub max_live: u8,
    pub depth: u8,
    #[serde(default)]
    pub max_clones: u8,
    /// How world 0 is constructed when every initial capacity is 0: 0 = with_capacity (all zero), 1 = World::new(),
    /// 2 = Default::default(), 3 = std::mem::take of a populated-then-emptied world's sibling (Default through take).
    #[serde(default)]
    pub ctor: u8,
    /// H2 preset applied to the active archetypes of world 0: (slot generation, archetype version).
    #[serde(default)]
    pub preset: Option<(u32, u32)>,
    /// Destroy key kinds in the alphabet (0 Entity, 1 EntityAny, 2 EntityDirect, 3 EntityDirectAny).
    #[serde(default = "all_kinds")]
    pub key_kinds: Vec<u8>,
    /// `ecs_iter_destroy!` scopes in the alphabet: 0..NARCH = typed archetype, 100+qf = world-level form.
    #[serde(default)]
    pub iter_destroy: Vec<u8>,
    /// Max population for which all 4^n decision functions are enumerated.
    #[serde(default = "default_idn")]
    pub iter_destroy_max_n: u8,
    /// Maximum number of fault actions per history (C10).
    #[serde(default)]
    pub max_faults: u8,
    /// Include ClearEvents operations (feature events).
    #[serde(default)]
    pub clear_events: bool,
    /// Properties whose probes are evaluated.
    pub props: Vec<String>,
    /// Include create_within_capacity in the alphabet.
    #[serde(default = "yes")]
    pub create_within: bool,
    /// Which `via` values are in the alphabet for create/destroy.
    #[serde(default = "both_vias")]
    pub vias: Vec<Via>,
    /// "Drop the world as it is" (non-empty, mid-history) is a transition of every state (C04, C13).
    #[serde(default)]
    pub drop_world: bool,
}

fn all_kinds() -> Vec<u8> {
    vec![0, 1, 2, 3]
}
fn default_idn() -> u8 {
    4
}
fn yes() -> bool {
    true
}
fn both_vias() -> Vec<Via> {
    vec![Via::World, Via::Arch]
}

impl Scenario {
    pub fn want(&self, prop: &str) -> bool {
        self.props.iter().any(|p| p == prop)
    }
    /// `tags` = comma separated property ids
    pub fn want_any(&self, tags: &str) -> bool {
        tags.split(',').any(|t| self.want(t))
    }
}

#[derive(Clone, Debug, PartialEq, Eq, Hash, Serialize, Deserialize)]
pub enum Op {
    Create { w: u8, a: u8, via: Via },
    CreateWithin { w: u8, a: u8, via: Via },
    /// Destroy the i-th live entity (creation order) of archetype a.
    Destroy { w: u8, a: u8, i: u8, key: u8, via: Via },
    /// `ecs_iter_destroy!`; entity j (uid order) of the matched population gets decision (dec >> 2j) & 3.
    IterDestroy { w: u8, scope: u8, dec: u32 },
    CloneWorld { w: u8 },
    /// scope 255 = world level, else archetype index.
    ClearEvents { w: u8, scope: u8 },
    /// Closure panics at its k-th invocation (1-based). mac: 0 find, 1 find_borrow, 2 iter, 3 iter_borrow, 4 iter_destroy.
    /// For iter_destroy all earlier invocations return `dec` (uniform decision).
    FaultQuery { w: u8, a: u8, mac: u8, k: u8, dec: u8 },
    /// `world.clone()` during which the k-th tracked `Clone::clone` panics.
    FaultClone { w: u8, k: u8 },
    /// `target.clone_from(&world)` into a non-empty scratch target of the same shape (an unfaulted clone of `world`), during
    /// which the k-th tracked `Clone::clone` panics; the target is dropped afterwards.
    FaultCloneFrom { w: u8, k: u8 },
    /// Destroy (dynamic key, world level: the tuple is dropped inside gecs) during which the k-th tracked Drop panics.
    FaultDestroyDrop { w: u8, a: u8, i: u8, k: u8 },
    /// `ecs_iter_destroy!` destroying everything in archetype a, the k-th tracked Drop panics.
    FaultIterDestroyDrop { w: u8, a: u8, k: u8 },
    /// Drop world w; the k-th tracked Drop panics (k = 0: plain drop, no fault).
    DropWorld { w: u8, k: u8 },
    /// create / create_within_capacity with a user value whose `Into<Components>` conversion panics.
    FaultCreateInto { w: u8, a: u8, via: Via, within: bool },
}

impl Op {
    pub fn is_fault(&self) -> bool {
        matches!(
            self,
            Op::FaultQuery { .. } | Op::FaultClone { .. } | Op::FaultCloneFrom { .. } | Op::FaultDestroyDrop { .. } | Op::FaultIterDestroyDrop { .. } | Op::DropWorld { .. } | Op::FaultCreateInto { .. }
        )
    }
}

// ---------------------------------------------------------------------------------------------
// Reference model
// ---------------------------------------------------------------------------------------------

#[derive(Clone, Debug)]
pub struct MEnt {
    pub arch: u8,
    pub uid: u32,
    pub vals: Vec<u32>,
    pub any: EntityAny,
}

#[derive(Clone, Debug, Default)]
pub struct MWorld {
    pub live: BTreeMap<Bits, MEnt>,
    pub dead: BTreeSet<Bits>,
    /// Per archetype: live handles in creation order.
    pub order: Vec<Vec<Bits>>,
    pub removals: Vec<u64>,
    pub creations: Vec<u64>,
    pub last_cap: Vec<usize>,
    pub init_cap: Vec<usize>,
    pub ev_created: Vec<Vec<Bits>>,
    pub ev_destroyed: Vec<Vec<Bits>>,
    /// Slot positions whose generations were preset by H2: everything below the preset counts as issued.
    pub preset_slots: Vec<usize>,
    pub preset_gen: u32,
    /// Set when a leak-only fault (F4/F5 class) made the registry totals unverifiable for this world.
    pub dropped: bool,
}

impl MWorld {
    pub fn new() -> Self {
        MWorld {
            order: vec![Vec::new(); NARCH],
            removals: vec![0; NARCH],
            creations: vec![0; NARCH],
            last_cap: vec![0; NARCH],
            init_cap: vec![0; NARCH],
            ev_created: vec![Vec::new(); NARCH],
            ev_destroyed: vec![Vec::new(); NARCH],
            preset_slots: vec![0; NARCH],
            preset_gen: 0,
            ..Default::default()
        }
    }

    pub fn live_of(&self, a: usize) -> &Vec<Bits> {
        &self.order[a]
    }

    /// Was this value ever issued (or must it count as issued because of the H2 preset)?
    pub fn issued(&self, bits: Bits) -> bool {
        if self.live.contains_key(&bits) || self.dead.contains(&bits) {
            return true;
        }
        if self.preset_gen > 1 && !cfg!(feature = "wrapping_version") {
            // A preset slot has (virtually) lived through all generations below the preset.
            for a in 0..NARCH {
                if self.preset_slots[a] > 0 && (bits.0 & 0xff) as u8 == arch_id(a) {
                    let pos = (bits.0 >> 8) as usize;
                    if pos < self.preset_slots[a] && bits.1 < self.preset_gen {
                        return true;
                    }
                }
            }
        }
        false
    }

    pub fn remove(&mut self, bits: Bits) -> MEnt {
        let e = self.live.remove(&bits).expect("model: remove of non-live");
        self.dead.insert(bits);
        let a = e.arch as usize;
        self.order[a].retain(|b| *b != bits);
        self.removals[a] += 1;
        self.ev_destroyed[a].push(bits);
        e
    }
}

pub fn arch_id(a: usize) -> u8 {
    with_arch!(a, A => <A as Archetype>::ARCHETYPE_ID)
}

pub fn typed<A: Arch>(any: EntityAny) -> Entity<A> {
    Entity::<A>::from_any(any)
}

// ---------------------------------------------------------------------------------------------
// Counters (vacuity guards, evidence)
// ---------------------------------------------------------------------------------------------

#[derive(Clone, Debug, Default, Serialize, Deserialize)]
pub struct Counters {
    pub ops: u64,
    pub probes: u64,
    pub grows: u64,
    pub slot_reuses: u64,
    pub max_generation_delta: u32,
    pub swap_removes_nonlast: u64,
    pub stale_probes: u64,
    pub stale_rejected: u64,
    pub forged_probes: u64,
    pub forged_accepted_identical: u64,
    pub forged_clean_panics: u64,
    pub direct_probes: u64,
    pub direct_died: u64,
    pub direct_survived: u64,
    pub iter_destroy_runs: u64,
    pub iter_destroy_breaks: u64,
    pub clones: u64,
    pub overflow_panics: u64,
    pub faults_fired: u64,
    pub leak_known: u64,
    pub refills: u64,
    pub events_compared: u64,
    pub writes: u64,
    pub reads: u64,
    pub within_ok: u64,
    pub within_err: u64,
    pub derived_iter_checks: u64,
    pub known_findings: BTreeMap<String, u64>,
}

impl Counters {
    pub fn merge(&mut self, o: &Counters) {
        self.ops += o.ops;
        self.probes += o.probes;
        self.grows += o.grows;
        self.slot_reuses += o.slot_reuses;
        self.max_generation_delta = self.max_generation_delta.max(o.max_generation_delta);
        self.swap_removes_nonlast += o.swap_removes_nonlast;
        self.stale_probes += o.stale_probes;
        self.stale_rejected += o.stale_rejected;
        self.forged_probes += o.forged_probes;
        self.forged_accepted_identical += o.forged_accepted_identical;
        self.forged_clean_panics += o.forged_clean_panics;
        self.direct_probes += o.direct_probes;
        self.direct_died += o.direct_died;
        self.direct_survived += o.direct_survived;
        self.iter_destroy_runs += o.iter_destroy_runs;
        self.iter_destroy_breaks += o.iter_destroy_breaks;
        self.clones += o.clones;
        self.overflow_panics += o.overflow_panics;
        self.faults_fired += o.faults_fired;
        self.leak_known += o.leak_known;
        self.refills += o.refills;
        self.events_compared += o.events_compared;
        self.writes += o.writes;
        self.reads += o.reads;
        self.within_ok += o.within_ok;
        self.within_err += o.within_err;
        self.derived_iter_checks += o.derived_iter_checks;
        for (k, v) in &o.known_findings {
            *self.known_findings.entry(k.clone()).or_insert(0) += v;
        }
    }
}

// ---------------------------------------------------------------------------------------------
// The system
// ---------------------------------------------------------------------------------------------

pub const OVERFLOW_SLOT: &str = "slot version overflow";
pub const OVERFLOW_ARCH: &str = "arch version overflow";

pub struct Sys {
    pub sc: Scenario,
    pub worlds: Vec<Option<W>>,
    pub models: Vec<MWorld>,
    pub uid_next: u32,
    pub val_next: u32,
    pub step: u32,
    pub faults_used: u8,
    pub clones_used: u8,
    pub c: Counters,
    /// Expected number of live tracked instances / ZST balance that the registry cannot account for
    /// any more because of a known leak finding (F4/F5): registry totals are then lower bounds.
    pub leaked_tracked: i64,
    pub leaked_z: i64,
    /// Every direct handle ever obtained in this history (one per live entity after every step), with the
    /// number of removals its archetype had seen when it was obtained: once a removal follows, it must stay dead.
    pub tracked_direct: Vec<TrackedDirect>,
    /// Known-finding signatures that were hit in this execution (reported, not violations).
    pub known_hits: Vec<String>,
    pub known: std::sync::Arc<Vec<KnownFinding>>,
}

#[derive(Clone, Debug)]
pub struct TrackedDirect {
    pub w: usize,
    pub a: u8,
    pub uid: u32,
    pub d: EntityDirectAny,
    pub born_removals: u64,
    pub born_creations: u64,
}

#[derive(Clone, Debug, Serialize, Deserialize)]
pub struct KnownFinding {
    pub property: String,
    pub signature: String,
    pub status: String,
    #[serde(default)]
    pub commit: Option<String>,
    pub what: String,
}

pub fn tracked_cols(a: usize) -> i64 {
    TRACKED[a]
}
pub fn zed_cols(a: usize) -> i64 {
    ZEDS[a]
}

impl Sys {
    pub fn new(sc: &Scenario, known: std::sync::Arc<Vec<KnownFinding>>) -> R<Sys> {
        reg_reset();
        let mut cap = WCapacity::default();
        let mut m = MWorld::new();
        for (j, a) in sc.archs.iter().enumerate() {
            let n = sc.caps[j];
            with_arch!(*a as usize, A => <A as Arch>::set_cap(&mut cap, n));
            m.init_cap[*a as usize] = n;
            m.last_cap[*a as usize] = n;
        }
        let zero = sc.caps.iter().all(|c| *c == 0);
        let mut w = match (zero, sc.ctor) {
            (true, 1) => guard("C12", "World::new", || Ok(W::new()))?,
            (true, 2) => guard("C12", "World::default", || Ok(W::default()))?,
            (true, 3) => guard("C12", "mem::take", || {
                let mut tmp = W::with_capacity(cap);
                let fresh = std::mem::take(&mut tmp);
                drop(tmp);
                Ok(fresh)
            })?,
            _ => guard("C12", "with_capacity", || Ok(W::with_capacity(cap)))?,
        };
        if let Some((sg, ag)) = sc.preset {
            for (j, a) in sc.archs.iter().enumerate() {
                with_arch!(*a as usize, A => <A as Arch>::preset(&mut w, sg, ag));
                m.preset_slots[*a as usize] = sc.caps[j];
            }
            m.preset_gen = sg;
        }
        Ok(Sys {
            sc: sc.clone(),
            worlds: vec![Some(w)],
            models: vec![m],
            uid_next: 1,
            val_next: 1,
            step: 0,
            faults_used: 0,
            clones_used: 0,
            c: Counters::default(),
            leaked_tracked: 0,
            leaked_z: 0,
            tracked_direct: Vec::new(),
            known_hits: Vec::new(),
            known,
        })
    }

    pub fn is_known(&self, prop: &str, signature: &str) -> bool {
        self.known.iter().any(|k| k.status == "known" && k.property == prop && k.signature == signature)
    }

    pub fn note_known(&mut self, prop: &str, signature: &str) {
        let key = format!("{}:{}", prop, signature);
        *self.c.known_findings.entry(key.clone()).or_insert(0) += 1;
        if !self.known_hits.contains(&key) {
            self.known_hits.push(key);
        }
    }

    pub fn fresh_vals(&mut self, ncols: usize) -> Vec<u32> {
        let v = (0..ncols as u32).map(|c| self.val_next + c).collect();
        self.val_next += ncols as u32;
        v
    }

    pub fn world(&mut self, w: usize) -> &mut W {
        self.worlds[w].as_mut().expect("hx: world was dropped")
    }

    pub fn world_alive(&self, w: usize) -> bool {
        self.worlds[w].is_some()
    }

    // -----------------------------------------------------------------------------------------
    // Enabled actions
    // -----------------------------------------------------------------------------------------

    pub fn actions(&self) -> Vec<Op> {
        let sc = &self.sc;
        let mut out = Vec::new();
        for w in 0..self.worlds.len() {
            if !self.world_alive(w) {
                continue;
            }
            let m = &self.models[w];
            let wu = w as u8;
            for &a in &sc.archs {
                let n = m.order[a as usize].len();
                if n < sc.max_live as usize {
                    for &via in &sc.vias {
                        out.push(Op::Create { w: wu, a, via });
                    }
                }
                if sc.create_within {
                    // create_within_capacity is always enabled (it may legitimately fail), but a
                    // success must respect the live bound.
                    if n < sc.max_live as usize {
                        for &via in &sc.vias {
                            out.push(Op::CreateWithin { w: wu, a, via });
                        }
                    }
                }
                for i in 0..n {
                    for &key in &sc.key_kinds {
                        for &via in &sc.vias {
                            out.push(Op::Destroy { w: wu, a, i: i as u8, key, via });
                        }
                    }
                }
            }
            for &scope in &sc.iter_destroy {
                let n = self.population(w, scope).len();
                if n == 0 {
                    out.push(Op::IterDestroy { w: wu, scope, dec: 0 });
                } else if n <= sc.iter_destroy_max_n as usize {
                    for dec in 0..(1u32 << (2 * n)) {
                        out.push(Op::IterDestroy { w: wu, scope, dec });
                    }
                } else {
                    // Population too large for all 4^n functions: uniform decisions plus every
                    // single-deviation function (still enumerated, never sampled).
                    for base in 0..4u32 {
                        let mut uni = 0u32;
                        for j in 0..n {
                            uni |= base << (2 * j);
                        }
                        out.push(Op::IterDestroy { w: wu, scope, dec: uni });
                        for j in 0..n {
                            for d in 0..4u32 {
                                if d != base {
                                    out.push(Op::IterDestroy { w: wu, scope, dec: (uni & !(3 << (2 * j))) | (d << (2 * j)) });
                                }
                            }
                        }
                    }
                }
            }
            if self.clones_used < sc.max_clones {
                out.push(Op::CloneWorld { w: wu });
            }
            if sc.clear_events {
                out.push(Op::ClearEvents { w: wu, scope: 255 });
                for &a in &sc.archs {
                    out.push(Op::ClearEvents { w: wu, scope: a });
                }
            }
            if sc.drop_world && sc.max_faults == 0 {
                out.push(Op::DropWorld { w: wu, k: 0 });
            }
            if self.faults_used < sc.max_faults {
                for &a in &sc.archs {
                    let n = m.order[a as usize].len();
                    for via in [Via::World, Via::Arch] {
                        for within in [false, true] {
                            out.push(Op::FaultCreateInto { w: wu, a, via, within });
                        }
                    }
                    for mac in 0..6u8 {
                        // 5 = runtime borrow conflict (also tried on an empty archetype, where it must NOT panic)
                        let kmax = if mac == 5 { 1 } else if mac < 2 { n.min(1) } else { n };
                        for k in 1..=kmax {
                            if mac == 4 {
                                for dec in [STEP_CONTINUE, STEP_CONTINUE_DESTROY] {
                                    out.push(Op::FaultQuery { w: wu, a, mac, k: k as u8, dec });
                                }
                            } else {
                                out.push(Op::FaultQuery { w: wu, a, mac, k: k as u8, dec: 0 });
                            }
                        }
                    }
                    let t = tracked_cols(a as usize) as usize;
                    for i in 0..n {
                        for k in 1..=t {
                            out.push(Op::FaultDestroyDrop { w: wu, a, i: i as u8, k: k as u8 });
                        }
                    }
                    for k in 1..=(n * t) {
                        out.push(Op::FaultIterDestroyDrop { w: wu, a, k: k as u8 });
                    }
                }
                // closure panics inside the multi-archetype (world-level) forms of the iteration macros: a = 200 + query form
                if sc.archs.len() > 1 {
                    for qf in [QF_ANY, QF_WILD] {
                        let n: usize = (0..NARCH).filter(|a| qform_matches(qf, *a)).map(|a| m.order[a].len()).sum();
                        for mac in 2..5u8 {
                            for k in 1..=n {
                                if mac == 4 {
                                    for dec in [STEP_CONTINUE, STEP_CONTINUE_DESTROY] {
                                        out.push(Op::FaultQuery { w: wu, a: 200 + qf, mac, k: k as u8, dec });
                                    }
                                } else {
                                    out.push(Op::FaultQuery { w: wu, a: 200 + qf, mac, k: k as u8, dec: 0 });
                                }
                            }
                        }
                    }
                }
                let total_tracked: usize = sc.archs.iter().map(|&a| m.order[a as usize].len() * tracked_cols(a as usize) as usize).sum();
                for k in 1..=total_tracked {
                    out.push(Op::FaultClone { w: wu, k: k as u8 });
                    out.push(Op::FaultCloneFrom { w: wu, k: k as u8 });
                }
                // Dropping a world (with or without a Drop fault) only while another world remains,
                // or as the very last action of a history (the epilogue copes with no worlds).
                for k in 0..=total_tracked {
                    out.push(Op::DropWorld { w: wu, k: k as u8 });
                }
            }
        }
        out
    }

    /// Live entities (model) matched by an iter_destroy scope, sorted by uid.
    pub fn population(&self, w: usize, scope: u8) -> Vec<Bits> {
        let m = &self.models[w];
        let mut v: Vec<(u32, Bits)> = Vec::new();
        for a in 0..NARCH {
            let matched = if scope < 100 { a == scope as usize } else { qform_matches(scope - 100, a) };
            if matched {
                for b in &m.order[a] {
                    v.push((m.live[b].uid, *b));
                }
            }
        }
        v.sort();
        v.into_iter().map(|x| x.1).collect()
    }

    // -----------------------------------------------------------------------------------------
    // Dumps
    // -----------------------------------------------------------------------------------------

    pub fn dumps(&self, w: usize) -> Vec<VerifDump> {
        dump_all(self.worlds[w].as_ref().expect("hx: world was dropped"))
    }

    pub fn dump_of(&self, w: usize, a: usize) -> VerifDump {
        let wr = self.worlds[w].as_ref().expect("hx: world was dropped");
        with_arch!(a, A => <A as Arch>::dump(wr))
    }

    /// Canonical fingerprint of (real representation, reference model). Component values and uid
    /// numerals are deliberately absent (see DESIGN.md 1.4); everything else that can influence a
    /// future step is in.
    pub fn canon_key(&self) -> u128 {
        let mut buf: Vec<u8> = Vec::with_capacity(512);
        let mut put = |x: u64| buf.extend_from_slice(&x.to_le_bytes());
        put(self.worlds.len() as u64);
        put(self.faults_used as u64);
        put(self.clones_used as u64);
        put(self.leaked_tracked as u64);
        put(self.leaked_z as u64);
        for w in 0..self.worlds.len() {
            match &self.worlds[w] {
                None => put(0xDEAD),
                Some(world) => {
                    for d in dump_all(world) {
                        put(d.version as u64);
                        put(d.len as u64);
                        put(d.capacity as u64);
                        put(d.free_head as u64);
                        for (i, g) in &d.slots {
                            put(((*i as u64) << 32) | *g as u64);
                        }
                        for (k, g) in &d.entities {
                            put(((*k as u64) << 32) | *g as u64);
                        }
                    }
                }
            }
            let m = &self.models[w];
            put(m.live.len() as u64);
            for (b, e) in &m.live {
                put(((b.0 as u64) << 32) | b.1 as u64);
                put(e.arch as u64);
            }
            put(m.dead.len() as u64);
            for b in &m.dead {
                put(((b.0 as u64) << 32) | b.1 as u64);
            }
            for a in 0..NARCH {
                put(m.removals[a]);
                put(m.last_cap[a] as u64);
                put(m.ev_created[a].len() as u64);
                for b in &m.ev_created[a] {
                    put(((b.0 as u64) << 32) | b.1 as u64);
                }
                put(m.ev_destroyed[a].len() as u64);
                for b in &m.ev_destroyed[a] {
                    put(((b.0 as u64) << 32) | b.1 as u64);
                }
            }
        }
        xxhash_rust::xxh3::xxh3_128(&buf)
    }

    /// Which counter (if any) is at its maximum for destroying `bits` in archetype a.
    fn overflow_due(&self, w: usize, a: usize, bits: Bits) -> Option<&'static str> {
        if cfg!(feature = "wrapping_version") {
            return None;
        }
        // slot first: this is the order in which the library evaluates them
        if bits.1 == u32::MAX {
            return Some(OVERFLOW_SLOT);
        }
        if self.dump_of(w, a).version == u32::MAX {
            return Some(OVERFLOW_ARCH);
        }
        None
    }

    // -----------------------------------------------------------------------------------------
    // Registry invariant (C04): live tracked instances == what the models say the worlds own.
    // -----------------------------------------------------------------------------------------

    pub fn check_registry(&mut self, at: &str) -> R {
        if !self.sc.want_any("C04,C10") {
            return Ok(());
        }
        let snap = reg_snapshot();
        ensure!(snap.double_drops == 0, "C04", "double-drop", "{}: {} component value(s) dropped twice (or garbage dropped)", at, snap.double_drops);
        ensure!(snap.z_underflow == 0, "C04", "double-drop-zst", "{}: zero-sized component dropped more often than created", at);
        let mut tracked = 0i64;
        let mut z = 0i64;
        for (w, m) in self.models.iter().enumerate() {
            if !self.world_alive(w) {
                continue;
            }
            for a in 0..NARCH {
                let n = m.order[a].len() as i64;
                tracked += n * tracked_cols(a);
                z += n * zed_cols(a);
            }
        }
        let (tracked, z) = (tracked + self.leaked_tracked, z + self.leaked_z);
        ensure!(snap.live as i64 == tracked, "C04", if (snap.live as i64) < tracked { "dropped-while-alive" } else { "leak" },
            "{}: registry has {} live tracked component values, the worlds own {} (incl. {} known-leaked)", at, snap.live, tracked, self.leaked_tracked);
        ensure!(snap.z_live == z, "C04", if snap.z_live < z { "dropped-while-alive-zst" } else { "leak-zst" },
            "{}: zero-sized Drop component balance is {}, the worlds own {} (incl. {} known-leaked)", at, snap.z_live, z, self.leaked_z);
        Ok(())
    }

    // -----------------------------------------------------------------------------------------
    // Applying one operation in lockstep with the model
    // -----------------------------------------------------------------------------------------

    /// Applies `op`. `last` = this is the final operation of the history, i.e. the transition under
    /// examination (per-transition oracles run only then; every transition of the explored graph is
    /// the last operation of exactly one explored history).
    pub fn apply(&mut self, op: &Op, last: bool) -> R {
        self.c.ops += 1;
        self.step += 1;

        // Per-transition context: direct handles valid before the step (C09), other worlds' dumps (C13).
        let pre_direct = if last && (self.sc.want("C09") || self.sc.want("C07")) { self.collect_direct()? } else { Vec::new() };
        let pre_dumps: Vec<Option<Vec<VerifDump>>> = if last && self.sc.want("C13") && self.worlds.len() > 1 {
            (0..self.worlds.len()).map(|w| if self.world_alive(w) { Some(self.dumps(w)) } else { None }).collect()
        } else {
            Vec::new()
        };
        let pre_removals: Vec<Vec<u64>> = self.models.iter().map(|m| m.removals.clone()).collect();
        let pre_creations: Vec<Vec<u64>> = self.models.iter().map(|m| m.creations.clone()).collect();

        let touched = self.apply_inner(op)?;

        self.check_registry("after operation")?;

        if last && !pre_direct.is_empty() {
            self.check_direct_transition(&pre_direct, &pre_removals, &pre_creations)?;
        }
        if self.sc.want("C09") {
            if let Op::CloneWorld { w } = op {
                // the clone must answer like the original: it inherits the original's handles, dead or alive
                let nw = self.worlds.len() - 1;
                let inherited: Vec<TrackedDirect> = self.tracked_direct.iter().filter(|t| t.w == *w as usize).cloned().map(|mut t| { t.w = nw; t }).collect();
                self.tracked_direct.extend(inherited);
            }
            self.track_direct(last)?;
        }
        if last && !pre_dumps.is_empty() {
            for (w, d) in pre_dumps.iter().enumerate() {
                if Some(w) != touched && self.world_alive(w) {
                    if let Some(d) = d {
                        ensure!(*d == self.dumps(w), "C13", "independence", "operation {:?} on world {:?} changed the representation of world {}", op, touched, w);
                    }
                }
            }
        }
        Ok(())
    }

    /// Returns the index of the world the operation acted on.
    fn apply_inner(&mut self, op: &Op) -> R<Option<usize>> {
        match *op {
            Op::Create { w, a, via } => {
                let w = w as usize;
                with_arch!(a as usize, A => self.op_create::<A>(w, via, false))?;
                Ok(Some(w))
            }
            Op::CreateWithin { w, a, via } => {
                let w = w as usize;
                with_arch!(a as usize, A => self.op_create::<A>(w, via, true))?;
                Ok(Some(w))
            }
            Op::Destroy { w, a, i, key, via } => {
                let w = w as usize;
                with_arch!(a as usize, A => self.op_destroy::<A>(w, i as usize, key, via))?;
                Ok(Some(w))
            }
            Op::IterDestroy { w, scope, dec } => {
                let w = w as usize;
                self.op_iter_destroy(w, scope, dec)?;
                Ok(Some(w))
            }
            Op::CloneWorld { w } => {
                let w = w as usize;
                self.op_clone(w)?;
                Ok(None)
            }
            Op::ClearEvents { w, scope } => {
                let w = w as usize;
                self.op_clear_events(w, scope)?;
                Ok(Some(w))
            }
            Op::DropWorld { k: 0, .. } if self.sc.max_faults == 0 => crate::fault::apply_fault(self, op),
            Op::FaultQuery { .. } | Op::FaultClone { .. } | Op::FaultCloneFrom { .. } | Op::FaultDestroyDrop { .. } | Op::FaultIterDestroyDrop { .. } | Op::DropWorld { .. } | Op::FaultCreateInto { .. } => {
                self.faults_used += 1;
                crate::fault::apply_fault(self, op)
            }
        }
    }

    fn op_create<A: Arch>(&mut self, w: usize, via: Via, within: bool) -> R {
        let a = A::IDX;
        let uid = self.uid_next;
        self.uid_next += 1;
        let vals = self.fresh_vals(A::NCOLS);
        let (len0, cap0, _) = A::len_cap(self.world(w));
        let d0 = Some(self.dump_of(w, a));

        let world = self.worlds[w].as_mut().unwrap();
        let created: Option<Entity<A>> = if within {
            let r = guard("C12", "create_within_capacity", || Ok(A::x_create_within(world, via, uid, &vals)))?;
            let expect_ok = len0 < cap0;
            match r {
                Ok(e) => {
                    ensure_soft!(self.sc, expect_ok, "C12", "within-capacity-accepts-when-full", "create_within_capacity succeeded with len {} == capacity {}", len0, cap0);
                    self.c.within_ok += 1;
                    Some(e)
                }
                Err(row) => {
                    ensure_soft!(self.sc, !expect_ok, "C12", "within-capacity-refuses-with-room", "create_within_capacity failed with len {} < capacity {}", len0, cap0);
                    ensure_soft!(self.sc, row.dig == A::expect(uid, &vals), "C12", "within-capacity-returns-argument", "create_within_capacity did not hand back the components it was given (uid {})", uid);
                    self.c.within_err += 1;
                    None
                }
            }
        } else {
            Some(guard("C12", "create", || Ok(A::x_create(world, via, uid, &vals)))?)
        };

        let (len1, cap1, empty1) = A::len_cap(self.world(w));
        let m = &mut self.models[w];
        ensure_soft!(self.sc, cap1 >= cap0, "C12", "capacity-decreased", "capacity of {} went from {} to {}", A::NAME, cap0, cap1);
        if within || len0 < cap0 {
            ensure_soft!(self.sc, cap1 == cap0, "C12", "capacity-changed-without-need", "capacity of {} changed from {} to {} although len {} < capacity", A::NAME, cap0, cap1, len0);
        }
        if cap1 != cap0 {
            self.c.grows += 1;
        }
        m.last_cap[a] = cap1;

        if let Some(e) = created {
            let any: EntityAny = e.into();
            let bits = any.raw();
            // A reissued handle breaks C08 and, at the same moment, C01: every stale copy of the old handle now resolves.
            ensure!(!m.issued(bits), "C08,C01,C14", "handle-reissued", "create returned {:?} whose bits {:?} were issued before in this world (every stale copy of that handle now designates the new entity)", e, bits);
            ensure!(e.archetype_id() == A::ARCHETYPE_ID && any.archetype_id() == A::ARCHETYPE_ID && (bits.0 & 0xff) as u8 == A::ARCHETYPE_ID,
                "C14", "archetype-id-of-created-handle", "handle {:?} created by {} does not carry ARCHETYPE_ID {}", any, A::NAME, A::ARCHETYPE_ID);
            ensure_soft!(self.sc, len1 == len0 + 1 && !empty1, "C12", "len-after-create", "len went from {} to {} on create", len0, len1);
            m.live.insert(bits, MEnt { arch: a as u8, uid, vals, any });
            m.order[a].push(bits);
            m.creations[a] += 1;
            m.ev_created[a].push(bits);
            if let Some(d0) = d0 {
                let pos = (bits.0 >> 8) as usize;
                if pos < d0.slots.len() && d0.slots[pos].1 > 1.max(m.preset_gen) {
                    self.c.slot_reuses += 1;
                }
                let base = if pos < m.preset_slots[a] { m.preset_gen } else { 1 };
                self.c.max_generation_delta = self.c.max_generation_delta.max(bits.1.wrapping_sub(base));
            }
        } else {
            ensure_soft!(self.sc, len1 == len0, "C12", "len-after-failed-create", "len changed from {} to {} on a failed create_within_capacity", len0, len1);
        }
        Ok(())
    }

    /// Builds the key of the requested kind for a live entity (minting a direct handle if needed).
    pub fn key_for<A: Arch>(&mut self, w: usize, any: EntityAny, kind: u8, via: Via) -> R<Hk<A>> {
        let e = typed::<A>(any);
        Ok(match kind {
            0 => Hk::E(e),
            1 => Hk::Any(any),
            _ => {
                let world = self.world(w);
                let d = guard("C09", "to_direct", || Ok(A::x_to_direct(world, Hk::E(e), via)))?;
                let d = match d {
                    Some(d) => d,
                    None => return vio!("C01", "live-handle-rejected:to_direct", "to_direct({:?}) returned None for a live entity", e),
                };
                if kind == 2 {
                    Hk::D(EntityDirect::<A>::from_any(d))
                } else {
                    Hk::DAny(d)
                }
            }
        })
    }

    fn op_destroy<A: Arch>(&mut self, w: usize, i: usize, kind: u8, via: Via) -> R {
        let a = A::IDX;
        let bits = self.models[w].order[a][i];
        let ent = self.models[w].live[&bits].clone();
        let key = self.key_for::<A>(w, ent.any, kind, via)?;
        let due = self.overflow_due(w, a, bits);
        let d0 = self.dump_of(w, a);
        let (len0, _, _) = A::len_cap(self.world(w));

        let world = self.worlds[w].as_mut().unwrap();
        let res = catch_unwind(AssertUnwindSafe(|| A::x_destroy(world, key, via)));
        match res {
            Err(p) => {
                let msg = panic_msg(&p);
                match due {
                    Some(expected) if msg.contains(expected) || msg.contains(OVERFLOW_SLOT) || msg.contains(OVERFLOW_ARCH) => {
                        // Documented overflow panic. It must have left the world untouched.
                        self.c.overflow_panics += 1;
                        let d1 = self.dump_of(w, a);
                        ensure!(d0 == d1, "C10", "overflow-panic-mutated-world", "destroy of {:?} panicked with '{}' but changed the archetype: before {:?} after {:?}", ent.any, msg, d0, d1);
                        Ok(())
                    }
                    _ => vio!("C01", "unexpected-panic:destroy", "destroy({}) of live entity panicked: {}", key.describe(), msg),
                }
            }
            Ok(r) => {
                if let (Some(expected), true) = (due, self.sc.want_any("C08,C10")) {
                    return vio!("C08", "overflow-did-not-panic", "destroy of {:?} returned although a counter is at its maximum ({}); default configuration must panic", ent.any, expected);
                }
                let r = match r {
                    Some(r) => r,
                    None => return vio!("C01", "live-handle-rejected:destroy", "destroy({}) via {:?} returned None for live entity uid {}", key.describe(), via, ent.uid),
                };
                if let Some(row) = r {
                    ensure_soft!(self.sc, row.dig == A::expect(ent.uid, &ent.vals), "C02", "destroy-returned-wrong-values", "destroy({}) returned components that are not those of uid {}: {:x?}", key.describe(), ent.uid, row.dig);
                }
                if (d0.entities.iter().position(|b| *b == bits).unwrap_or(usize::MAX)) + 1 != d0.len {
                    self.c.swap_removes_nonlast += 1;
                }
                self.models[w].remove(bits);
                let (len1, _, empty1) = A::len_cap(self.world(w));
                ensure_soft!(self.sc, len1 + 1 == len0 && empty1 == (len1 == 0), "C12", "len-after-destroy", "len went from {} to {} on destroy", len0, len1);
                Ok(())
            }
        }
    }

    fn op_iter_destroy(&mut self, w: usize, scope: u8, dec: u32) -> R {
        self.c.iter_destroy_runs += 1;
        let pop = self.population(w, scope);
        let decision: BTreeMap<u32, u8> = pop.iter().enumerate().map(|(j, b)| (self.models[w].live[b].uid, ((dec >> (2 * j)) & 3) as u8)).collect();
        let mut visited: Vec<Row> = Vec::new();
        let world = self.worlds[w].as_mut().unwrap();
        let res = catch_unwind(AssertUnwindSafe(|| {
            let mut decide = |row: &Row| -> u8 {
                visited.push(row.clone());
                match row.uid() {
                    Some(u) => *decision.get(&u).unwrap_or(&STEP_CONTINUE),
                    None => STEP_CONTINUE,
                }
            };
            if scope < 100 {
                with_arch!(scope as usize, A => <A as Arch>::iter_destroy(world, &mut decide))
            } else {
                wq_iter_destroy(world, scope - 100, &mut decide)
            }
        }));
        let panicked = match res {
            Ok(()) => None,
            Err(p) => Some(panic_msg(&p)),
        };

        // ---- visited set (C07) ----
        let mut seen = BTreeSet::new();
        let mut break_seen = false;
        let mut to_destroy: Vec<(Bits, EntityDirectAny)> = Vec::new();
        let nvis = visited.len();
        for (j, row) in visited.iter().enumerate() {
            ensure!(!break_seen, "C07", "continued-after-break", "ecs_iter_destroy! called the closure again after Break/BreakDestroy");
            let bits = row.bits.unwrap();
            let ent = match self.models[w].live.get(&bits) {
                Some(e) => e.clone(),
                None => return vio!("C07", "visited-non-live", "ecs_iter_destroy! visited handle {:?} which was not alive when the loop started (or was destroyed earlier in the loop)", bits),
            };
            ensure!(pop.contains(&bits), "C07", "visited-unmatched", "ecs_iter_destroy! visited {:?} of an archetype the query does not match", bits);
            ensure!(seen.insert(bits), "C07", "visited-twice", "ecs_iter_destroy! visited uid {} twice", ent.uid);
            let exp = with_arch!(ent.arch as usize, A => <A as Arch>::expect(ent.uid, &ent.vals));
            let ok = row_matches(ent.arch as usize, row, &exp);
            ensure!(ok, "C07", "visited-wrong-data", "ecs_iter_destroy! paired handle {:?} (uid {}) with foreign/garbled component data {:x?}", bits, ent.uid, row.dig);
            let d = decision[&ent.uid];
            if d == STEP_BREAK || d == STEP_BREAK_DESTROY {
                break_seen = true;
                self.c.iter_destroy_breaks += 1;
            }
            if d == STEP_CONTINUE_DESTROY || d == STEP_BREAK_DESTROY {
                to_destroy.push((bits, row.direct.unwrap()));
            }
            let _ = (j, nvis);
        }
        if !break_seen && panicked.is_none() {
            ensure!(seen.len() == pop.len(), "C07", "not-all-visited", "ecs_iter_destroy! visited {} of {} matching live entities without a Break", seen.len(), pop.len());
        }

        // ---- effects on the model ----
        let mut not_destroyed_last: Option<Bits> = None;
        if let Some(msg) = &panicked {
            // Only a documented overflow panic inside the destroy of the last visited entity is allowed.
            let last = to_destroy.last().cloned();
            let last_visited = visited.last().and_then(|r| r.bits);
            let allowed = match (last, last_visited) {
                (Some((b, _)), Some(lv)) if b == lv => {
                    let a = self.models[w].live[&b].arch as usize;
                    // the generation/version the library saw: other destroys of this loop already bumped the archetype version
                    (msg.contains(OVERFLOW_SLOT) || msg.contains(OVERFLOW_ARCH)) && !cfg!(feature = "wrapping_version") && (b.1 == u32::MAX || self.dump_of(w, a).version == u32::MAX)
                }
                _ => false,
            };
            if !allowed {
                return vio!("C07", "unexpected-panic:iter_destroy", "ecs_iter_destroy! panicked: {}", msg);
            }
            self.c.overflow_panics += 1;
            not_destroyed_last = last.map(|x| x.0);
            to_destroy.pop();
        }
        let visit_arch: Vec<(Bits, u8, EntityDirectAny, u32)> = visited.iter().map(|r| {
            let b = r.bits.unwrap();
            let e = &self.models[w].live[&b];
            (b, e.arch, r.direct.unwrap(), e.uid)
        }).collect();
        for (b, _) in &to_destroy {
            self.models[w].remove(*b);
        }
        let _ = not_destroyed_last;

        // ---- outcome (C07): exactly the flagged entities are gone, every other entity of the population is alive with its
        //      own values and its old handle; nothing outside the population was touched (len of every archetype) ----
        if self.sc.want("C07") && panicked.is_none() {
            for b in &pop {
                let flagged = to_destroy.iter().any(|(x, _)| x == b);
                let ent = if flagged { None } else { Some(self.models[w].live[b].clone()) };
                let any = gecs::entity::EntityAny::from_raw(*b).unwrap();
                let world = self.worlds[w].as_mut().unwrap();
                let alive = guard("C07", "contains after ecs_iter_destroy!", || Ok(world.contains(any)))?;
                ensure!(alive == !flagged, "C07", if flagged { "flagged-entity-survived" } else { "unflagged-entity-destroyed" },
                    "after ecs_iter_destroy! the entity {:?} for which the closure returned {} is {}", b, if flagged { "ContinueDestroy/BreakDestroy" } else { "Continue/Break (or which was not reached)" }, if alive { "still alive" } else { "gone" });
                if let Some(ent) = ent {
                    let a = ent.arch as usize;
                    let world = self.worlds[w].as_mut().unwrap();
                    let row = guard("C07", "read of a survivor after ecs_iter_destroy!", || Ok(with_arch!(a, A => <A as Arch>::read(world, Hk::Any(any), RP_FIND))))?;
                    let exp = with_arch!(a, A => <A as Arch>::expect(ent.uid, &ent.vals));
                    ensure!(row.as_ref().map(|r| row_matches(a, r, &exp)).unwrap_or(false), "C07", "survivor-wrong-data", "after ecs_iter_destroy! the survivor {:?} (uid {}) reads {:x?}, expected {:x?}", b, ent.uid, row.map(|r| r.dig), exp);
                }
            }
            for a in 0..NARCH {
                let (len, _, _) = with_arch!(a, A => <A as Arch>::len_cap(self.world(w)));
                ensure!(len == self.models[w].order[a].len(), "C07", "wrong-number-destroyed", "after ecs_iter_destroy! {} has len {}, {} entities should be alive", ARCH_NAMES[a], len, self.models[w].order[a].len());
            }
        }

        // ---- direct handles handed to the closure (C07 designation clause, C09 liveness clause) ----
        if self.sc.want("C07") || self.sc.want("C09") {
            for (j, (b, arch, d, uid)) in visit_arch.iter().enumerate() {
                // was there a destruction in this archetype at or after the minting of this handle?
                let later_removal = visit_arch[j..].iter().any(|(b2, a2, _, _)| a2 == arch && to_destroy.iter().any(|(x, _)| x == b2));
                let world = self.worlds[w].as_mut().unwrap();
                let got = guard("C09", "lookup of direct handle from ecs_iter_destroy!", || {
                    Ok(with_arch!(*arch as usize, A => <A as Arch>::read(world, Hk::DAny(*d), RP_RESOLVE_GET_SLICE)))
                })?;
                self.c.direct_probes += 1;
                match got {
                    Some(row) => {
                        ensure_soft!(self.sc, !later_removal, "C09", "direct-survived-removal:iter_destroy", "direct handle {:?} handed out by ecs_iter_destroy! is still accepted although an entity of its archetype was destroyed afterwards", d);
                        ensure!(row.uid() == Some(*uid), "C07", "direct-designates-other:iter_destroy", "direct handle {:?} handed to the closure while visiting uid {} designates uid {:?}", d, uid, row.uid());
                        let _ = b;
                        self.c.direct_survived += 1;
                    }
                    None => {
                        if !later_removal && self.sc.want("C09") {
                            let sig = "direct-dead-on-arrival:iter_destroy";
                            if self.is_known("C09", sig) {
                                self.note_known("C09", sig);
                            } else {
                                return vio!("C09", sig, "direct handle {:?} handed out by ecs_iter_destroy! (visiting uid {}) is rejected although no entity of its archetype was destroyed after it was issued", d, uid);
                            }
                        }
                        self.c.direct_died += 1;
                    }
                }
            }
        }
        Ok(())
    }

    fn op_clone(&mut self, w: usize) -> R {
        self.clones_used += 1;
        self.c.clones += 1;
        let snap0 = reg_snapshot();
        let src = self.worlds[w].as_ref().unwrap();
        let cl = guard("C13", "clone", || Ok(src.clone()))?;
        let snap1 = reg_snapshot();
        let m = self.models[w].clone();
        // C04: each live component cloned exactly once.
        let mut tracked = 0i64;
        let mut z = 0i64;
        for a in 0..NARCH {
            tracked += m.order[a].len() as i64 * tracked_cols(a);
            z += m.order[a].len() as i64 * zed_cols(a);
        }
        ensure_soft!(self.sc, (snap1.clones - snap0.clones) as i64 == tracked, "C04", "clone-count", "clone() cloned {} tracked component values, the world owns {}", snap1.clones - snap0.clones, tracked);
        ensure_soft!(self.sc, snap1.z_live - snap0.z_live == z, "C04", "clone-count-zst", "clone() cloned {} zero-sized components, the world owns {}", snap1.z_live - snap0.z_live, z);
        // Pad (global column 2) has no drop glue but an observable Clone
        let plain: u64 = (0..NARCH).filter(|a| COLMAP[*a].contains(&2)).map(|a| m.order[a].len() as u64).sum();
        ensure_soft!(self.sc, snap1.plain_clones - snap0.plain_clones == plain, "C04", "clone-count-plain", "clone() called Clone::clone {} times on a component type without drop glue, the world owns {} such values", snap1.plain_clones - snap0.plain_clones, plain);
        // C13: identical representation at the split.
        let d_src = dump_all(src);
        let d_cl = dump_all(&cl);
        ensure_soft!(self.sc, d_src == d_cl, "C13", "clone-representation-differs", "clone differs from the original right after clone(): original {:?} clone {:?}", d_src, d_cl);
        self.worlds.push(Some(cl));
        self.models.push(m);
        let nw = self.worlds.len() - 1;
        // C13: direct handles agree.
        for a in 0..NARCH {
            for b in self.models[w].order[a].clone() {
                let any = self.models[w].live[&b].any;
                let (d1, d2) = with_arch!(a, A => {
                    let e = typed::<A>(any);
                    (<A as Arch>::x_to_direct(self.worlds[w].as_ref().unwrap(), Hk::E(e), Via::World), <A as Arch>::x_to_direct(self.worlds[nw].as_ref().unwrap(), Hk::E(e), Via::World))
                });
                ensure_soft!(self.sc, d1.is_some() && d1 == d2, "C13", "clone-direct-handles-differ", "to_direct({:?}) is {:?} on the original and {:?} on the clone", any, d1, d2);
            }
        }
        #[cfg(feature = "events")]
        {
            let e1 = world_events(self.worlds[w].as_ref().unwrap());
            let e2 = world_events(self.worlds[nw].as_ref().unwrap());
            ensure_soft!(self.sc, e1 == e2, "C13", "clone-events-differ", "pending events differ after clone: {:?} vs {:?}", e1, e2);
        }
        Ok(())
    }

    fn op_clear_events(&mut self, w: usize, scope: u8) -> R {
        #[cfg(feature = "events")]
        {
            let d0 = self.dumps(w);
            let world = self.worlds[w].as_mut().unwrap();
            if scope == 255 {
                guard("C17", "clear_events", || Ok(world_clear_events(world)))?;
                for a in 0..NARCH {
                    self.models[w].ev_created[a].clear();
                    self.models[w].ev_destroyed[a].clear();
                }
            } else {
                guard("C17", "clear_events", || Ok(with_arch!(scope as usize, A => <A as Arch>::x_clear_events(world))))?;
                self.models[w].ev_created[scope as usize].clear();
                self.models[w].ev_destroyed[scope as usize].clear();
            }
            ensure!(d0 == self.dumps(w), "C17", "clear-events-changed-entities", "clear_events changed the entity representation");
        }
        let _ = (w, scope);
        Ok(())
    }

    // -----------------------------------------------------------------------------------------
    // Per-transition direct-handle oracle (C09)
    // -----------------------------------------------------------------------------------------

    /// One direct handle per live entity, obtained from to_direct (world, archetype).
    pub fn collect_direct(&mut self) -> R<Vec<(usize, u8, u32, EntityDirectAny)>> {
        let mut out = Vec::new();
        for w in 0..self.worlds.len() {
            if !self.world_alive(w) {
                continue;
            }
            for a in 0..NARCH {
                for b in self.models[w].order[a].clone() {
                    let ent = self.models[w].live[&b].clone();
                    let world = self.worlds[w].as_ref().unwrap();
                    let d = guard("C09", "to_direct", || Ok(with_arch!(a, A => <A as Arch>::x_to_direct(world, Hk::E(typed::<A>(ent.any)), Via::Arch))))?;
                    match d {
                        Some(d) => out.push((w, a as u8, ent.uid, d)),
                        None => return vio!("C01", "live-handle-rejected:to_direct", "to_direct({:?}) returned None for live uid {}", ent.any, ent.uid),
                    }
                }
            }
        }
        Ok(out)
    }

    fn check_direct_transition(&mut self, pre: &[(usize, u8, u32, EntityDirectAny)], pre_removals: &[Vec<u64>], pre_creations: &[Vec<u64>]) -> R {
        use crate::look::*;
        for (w, a, uid, d) in pre {
            if !self.world_alive(*w) {
                continue;
            }
            let removed = self.models[*w].removals[*a as usize] != pre_removals[*w][*a as usize];
            // A creation is a structural change too: the property lets the handle die on it (it must still never
            // designate another entity), it only REQUIRES death after a removal and survival when nothing changed.
            let grew = self.models[*w].creations[*a as usize] != pre_creations[*w].get(*a as usize).cloned().unwrap_or(0);
            let world = self.worlds[*w].as_mut().unwrap();
            self.c.direct_probes += 1;
            let mut res: Vec<LookRes> = Vec::new();
            guard("C09", "direct handle lookup after a step", || {
                with_arch!(*a as usize, A => {
                    let td = EntityDirect::<A>::from_any(*d);
                    res.extend(lookups::<A>(world, Hk::D(td), false));
                    res.extend(lookups::<A>(world, Hk::DAny(*d), false));
                });
                Ok(())
            })?;
            for r in res {
                if r.look.accepted() {
                    if removed {
                        let sig = format!("direct-survived-removal:{}", r.class);
                        if self.is_known("C09", &sig) {
                            self.note_known("C09", &sig);
                            continue;
                        }
                        return vio!("C09", sig, "direct handle {:?} (issued for uid {}) is still accepted by {} after an entity was removed from its archetype", d, uid, r.path);
                    }
                    if let Look::Reached(u) = &r.look {
                        ensure!(*u == Some(*uid), "C09", "direct-designates-other", "direct handle {:?} issued for uid {} reaches uid {:?} through {}", d, uid, u, r.path);
                    }
                } else {
                    ensure!(removed || grew, "C09", format!("direct-died-without-removal:{}", r.class), "direct handle {:?} (uid {}) is rejected by {} although its archetype underwent no structural change since it was issued", d, uid, r.path);
                }
            }
            if removed {
                self.c.direct_died += 1;
                // destroy through a stale direct handle must be refused and must not touch anything
                let d0 = self.dumps(*w);
                let world = self.worlds[*w].as_mut().unwrap();
                let r = guard("C09", "destroy with stale direct handle", || {
                    Ok(with_arch!(*a as usize, A => {
                        let td = EntityDirect::<A>::from_any(*d);
                        destroy_all_levels::<A>(world, Hk::D(td), false).0 | destroy_all_levels::<A>(world, Hk::DAny(*d), false).0
                    }))
                })?;
                ensure!(!r, "C09", "stale-direct-destroyed-something", "destroy with stale direct handle {:?} destroyed an entity", d);
                ensure!(d0 == self.dumps(*w), "C09", "stale-direct-destroy-mutated", "destroy with stale direct handle {:?} changed the world", d);
            } else {
                self.c.direct_survived += 1;
            }
        }
        Ok(())
    }

    /// Whole-history direct-handle oracle: (a) a removal must leave the archetype at a version that no handle
    /// obtained before it carries (otherwise a later entity at the same index would be handed a bit-identical
    /// value); (b) every handle obtained earlier in the history whose archetype has seen a removal since is
    /// rejected now - and at every later step, whatever happened in between; then the handles of the current
    /// live entities are added.
    fn track_direct(&mut self, last: bool) -> R {
        use crate::look::*;
        for i in 0..self.tracked_direct.len() {
            let t = self.tracked_direct[i].clone();
            if !self.world_alive(t.w) {
                continue;
            }
            let m = &self.models[t.w];
            let removed = m.removals[t.a as usize] > t.born_removals;
            if !removed {
                continue;
            }
            let world = self.worlds[t.w].as_mut().unwrap();
            // (a) the version moved away from the one the old handle carries
            let same_version = guard("C09", "version() after a removal", || {
                Ok(with_arch!(t.a as usize, A => {
                    let td = EntityDirect::<A>::from_any(t.d);
                    // same index at the archetype's present version: equal iff the version did not move
                    let idx = crate::probe::direct_index_of(&t.d);
                    <A as Arch>::forge_direct(idx, <A as Arch>::x_version(world)) == td
                }))
            })?;
            ensure!(!same_version, "C09", "removal-kept-archetype-version", "direct handle {:?} was obtained before an entity was removed from its archetype, yet the archetype is (again) at the version the handle carries: an entity placed at that index now gets a bit-identical handle", t.d);
            // (b) dead and staying dead
            self.c.direct_probes += 1;
            let mut res: Vec<LookRes> = Vec::new();
            guard("C09", "lookup of a direct handle that died earlier", || {
                with_arch!(t.a as usize, A => {
                    let td = EntityDirect::<A>::from_any(t.d);
                    if last {
                        res.extend(lookups::<A>(world, Hk::D(td), false));
                        res.extend(lookups::<A>(world, Hk::DAny(t.d), false));
                    } else {
                        let c = <A as Arch>::x_contains(world, Hk::D(td), Via::Arch) || <A as Arch>::x_resolve(world, Hk::DAny(t.d)).is_some();
                        res.push(LookRes { path: PathId::Contains(Via::Arch, 2), class: "contains", world_level: false, look: if c { Look::Accepted } else { Look::Rejected }, bits: None, direct: None });
                    }
                });
                Ok(())
            })?;
            for r in res {
                if r.look.accepted() {
                    let sig = format!("direct-revived:{}", r.class);
                    return vio!("C09", sig, "direct handle {:?} (obtained for uid {}, dead since a removal from its archetype) is accepted again by {} ({:?})", t.d, t.uid, r.path, r.look);
                }
            }
        }
        // add the handles of the present live entities
        for w in 0..self.worlds.len() {
            if !self.world_alive(w) {
                continue;
            }
            for a in 0..NARCH {
                for b in self.models[w].order[a].clone() {
                    let ent = self.models[w].live[&b].clone();
                    let world = self.worlds[w].as_ref().unwrap();
                    let d = guard("C09", "to_direct", || Ok(with_arch!(a, A => <A as Arch>::x_to_direct(world, Hk::E(typed::<A>(ent.any)), Via::World))))?;
                    if let Some(d) = d {
                        if !self.tracked_direct.iter().any(|t| t.w == w && t.a == a as u8 && t.d == d && t.uid == ent.uid) {
                            let m = &self.models[w];
                            self.tracked_direct.push(TrackedDirect { w, a: a as u8, uid: ent.uid, d, born_removals: m.removals[a], born_creations: m.creations[a] });
                        }
                    }
                }
            }
        }
        Ok(())
    }

    // -----------------------------------------------------------------------------------------
    // Replay round between operations: read every live entity through one rotating path, then
    // write every live entity through one rotating path (C02).
    // -----------------------------------------------------------------------------------------

    pub fn rw_round(&mut self) -> R {
        for w in 0..self.worlds.len() {
            if !self.world_alive(w) {
                continue;
            }
            for a in 0..NARCH {
                for b in self.models[w].order[a].clone() {
                    let ent = self.models[w].live[&b].clone();
                    let sel = self.step.wrapping_add(ent.uid);
                    let kind = (sel / 3 % 4) as u8;
                    let mut rp = (sel % N_READ_PATHS as u32) as u8;
                    if !read_path_applicable(rp, kind) {
                        rp = RP_FIND;
                    }
                    let wp = (sel % N_WRITE_PATHS as u32) as u8;
                    let nv = self.fresh_vals(ARITIES[a]);
                    let r: R<(Option<Row>, bool)> = with_arch!(a, A => {
                        let key = self.key_for::<A>(w, ent.any, kind, Via::Arch)?;
                        let world = self.worlds[w].as_mut().unwrap();
                        guard("C02", "read/write round", || {
                            let row = <A as Arch>::read(world, key, rp);
                            let ok = <A as Arch>::write(world, key, wp, ent.uid, &nv);
                            Ok((row, ok))
                        })
                    });
                    let (row, ok) = r?;
                    self.c.reads += 1;
                    self.c.writes += 1;
                    let exp = with_arch!(a, A => <A as Arch>::expect(ent.uid, &ent.vals));
                    match row {
                        None => return vio!("C01", "live-handle-rejected:read", "{} with {} rejected live uid {}", READ_PATH_NAMES[rp as usize], KEY_KINDS[kind as usize], ent.uid),
                        Some(row) => {
                            let okd = row_matches(a, &row, &exp);
                            ensure_soft!(self.sc, okd, "C02", "read-wrong-values", "{} with {} returned {:x?} for uid {} (expected {:x?}) after {} operations", READ_PATH_NAMES[rp as usize], KEY_KINDS[kind as usize], row.dig, ent.uid, exp, self.step);
                            if let Some(rb) = row.bits {
                                ensure_soft!(self.sc, rb == b, "C02", "read-wrong-handle", "{} reported handle {:?} for a lookup of {:?}", READ_PATH_NAMES[rp as usize], rb, b);
                            }
                        }
                    }
                    ensure!(ok, "C01", "live-handle-rejected:write", "{} with {} rejected live uid {}", WRITE_PATH_NAMES[wp as usize], KEY_KINDS[kind as usize], ent.uid);
                    self.models[w].live.get_mut(&b).unwrap().vals = nv;
                }
            }
        }
        Ok(())
    }
}
