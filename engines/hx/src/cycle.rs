//! Hook-free run up to the 2^32 generation boundary (C08 thorough): real create/destroy cycles on one
//! storage position (slot generation overflows first) and on two alternating positions (archetype version
//! overflows first). Every handle issued on the way is checked against its predecessor (per-position
//! generations strictly increasing = never reissued), and the state reached at the boundary must be the
//! very state hook H2 presets for the S-E explorations.

use std::panic::{catch_unwind, AssertUnwindSafe};

use gecs::prelude::*;
use serde::Serialize;

use crate::cols::{Bya, Col};
use crate::limit::lw::*;
use crate::sys::{panic_msg, Vio};

#[derive(Serialize, Default)]
pub struct CycleStats {
    pub cycles_one_position: u64,
    pub cycles_two_positions: u64,
    pub handles_checked: u64,
    pub boundary_dump_equals_h2_preset: Vec<bool>,
    pub overflow_messages: Vec<String>,
}

fn v(oracle: &str, msg: String) -> Vio {
    Vio { prop: "C08".into(), oracle: oracle.into(), msg }
}

const MAXV: u32 = u32::MAX;

pub fn run_cycle() -> (Vec<Vio>, CycleStats) {
    let mut st = CycleStats::default();
    let mut out = Vec::new();
    let wrapping = cfg!(feature = "wrapping_version");

    // ---- one position: capacity 1, the slot generation reaches 2^32-1 ----
    {
        let mut w = LW::with_capacity(LWCapacity { lim: 1 });
        let mut prev_gen = 0u32;
        let mut e = w.create::<Lim>((Bya::make(1, 0),));
        let n = MAXV as u64 - 1; // destroys until the live handle carries generation MAX
        for i in 0..n {
            let bits = e.into_any().raw();
            if bits.0 >> 8 != 0 || bits.1 != prev_gen + 1 {
                out.push(v("handle-reissued", format!("cycle {}: handle {:?} after generation {}", i, bits, prev_gen)));
                return (out, st);
            }
            prev_gen = bits.1;
            if w.destroy(e).is_none() {
                out.push(Vio { prop: "C01".into(), oracle: "live-handle-rejected:destroy".into(), msg: format!("cycle {}: destroy of the live handle {:?} returned None", i, bits) });
                return (out, st);
            }
            e = w.create::<Lim>((Bya::make(1, 0),));
        }
        st.cycles_one_position = n;
        st.handles_checked += n + 1;
        let bits = e.into_any().raw();
        if bits.1 != MAXV {
            out.push(v("boundary-not-reached", format!("after {} cycles the live handle is {:?}", n, bits)));
        }
        // the state H2 presets for S-E: slot generation MAX, archetype version MAX, one live entity
        let mut p = LW::with_capacity(LWCapacity { lim: 1 });
        p.lim.data.verif_preset_versions(MAXV, MAXV);
        let pe = p.create::<Lim>((Bya::make(1, 0),));
        let same = p.lim.data.verif_dump() == w.lim.data.verif_dump() && pe == e;
        st.boundary_dump_equals_h2_preset.push(same);
        if !same {
            out.push(Vio { prop: "HX".into(), oracle: "h2-preset-differs-from-real-history".into(), msg: format!("real: {:?} preset: {:?}", w.lim.data.verif_dump(), p.lim.data.verif_dump()) });
        }
        let d0 = w.lim.data.verif_dump();
        let r = catch_unwind(AssertUnwindSafe(|| w.destroy(e)));
        match r {
            Err(pn) => {
                let m = panic_msg(&pn);
                st.overflow_messages.push(m.clone());
                if wrapping || !m.contains("slot version overflow") {
                    out.push(v("overflow-wrong-panic", format!("destroy at generation 2^32-1 panicked with '{}' (wrapping_version = {})", m, wrapping)));
                }
                if w.lim.data.verif_dump() != d0 || !w.contains(e) {
                    out.push(Vio { prop: "C10".into(), oracle: "overflow-panic-mutated-world".into(), msg: "the overflow panic changed the archetype".into() });
                }
            }
            Ok(r) => {
                if !wrapping {
                    out.push(v("overflow-did-not-panic", format!("destroy at generation 2^32-1 returned {:?} in the default configuration", r.is_some())));
                } else {
                    // documented exception: wrap to generation 1 (never 0), no panic
                    let e2 = w.create::<Lim>((Bya::make(1, 0),));
                    let b2 = e2.into_any().raw();
                    if b2.1 != 1 || EntityAny::from_raw(b2).is_err() {
                        out.push(v("wraparound-wrong-generation", format!("after wrapping the next handle is {:?}", b2)));
                    }
                    let got = w.view(e2).map(|x| Col::digest(x.component::<Bya>()));
                    if got != Some(Bya::expect(1, 0)) {
                        out.push(Vio { prop: "C02".into(), oracle: "read-wrong-values".into(), msg: "entity created after the wraparound reads wrong data".into() });
                    }
                }
            }
        }
    }

    // ---- two alternating positions: capacity 2, the archetype version reaches 2^32-1 first ----
    {
        let mut w = LW::with_capacity(LWCapacity { lim: 2 });
        let mut es = [w.create::<Lim>((Bya::make(1, 0),)), w.create::<Lim>((Bya::make(2, 0),))];
        let mut prev = [0u32, 0u32];
        let n = MAXV as u64 - 1; // removals until the archetype version is MAX
        for i in 0..n {
            let k = (i & 1) as usize;
            let bits = es[k].into_any().raw();
            let pos = (bits.0 >> 8) as usize;
            if pos > 1 || bits.1 <= prev[pos] {
                out.push(v("handle-reissued", format!("cycle {}: handle {:?} after generation {} of position {}", i, bits, prev[pos], pos)));
                return (out, st);
            }
            prev[pos] = bits.1;
            if w.lim.destroy(es[k]).is_none() {
                out.push(Vio { prop: "C01".into(), oracle: "live-handle-rejected:destroy".into(), msg: format!("cycle {}: destroy of live {:?} returned None", i, bits) });
                return (out, st);
            }
            es[k] = w.lim.create((Bya::make(k as u32 + 1, 0),));
        }
        st.cycles_two_positions = n;
        st.handles_checked += n + 2;
        let d0 = w.lim.data.verif_dump();
        if d0.version != MAXV {
            out.push(v("boundary-not-reached", format!("after {} removals the archetype version is {}", n, d0.version)));
        }
        let r = catch_unwind(AssertUnwindSafe(|| w.destroy(es[0])));
        match r {
            Err(pn) => {
                let m = panic_msg(&pn);
                st.overflow_messages.push(m.clone());
                if wrapping || !m.contains("arch version overflow") {
                    out.push(v("overflow-wrong-panic", format!("destroy at archetype version 2^32-1 panicked with '{}' (wrapping_version = {})", m, wrapping)));
                }
                if w.lim.data.verif_dump() != d0 || !w.contains(es[0]) || !w.contains(es[1]) {
                    out.push(Vio { prop: "C10".into(), oracle: "overflow-panic-mutated-world".into(), msg: "the archetype version overflow panic changed the archetype".into() });
                }
            }
            Ok(_) => {
                if !wrapping {
                    out.push(v("overflow-did-not-panic", "destroy at archetype version 2^32-1 returned in the default configuration".into()));
                } else if w.lim.data.verif_dump().version != 1 {
                    out.push(v("wraparound-wrong-generation", format!("archetype version after wrapping is {}", w.lim.data.verif_dump().version)));
                }
            }
        }
    }
    (out, st)
}
