//! One uniform sweep over every lookup path a key can take.

use std::panic::{catch_unwind, AssertUnwindSafe};

use gecs::prelude::*;

use crate::sys::panic_msg;
use crate::world::*;

#[derive(Clone, Debug, PartialEq, Eq)]
pub enum Look {
    /// The path reported absence (false / None).
    Rejected,
    /// The path accepted the key but exposes no data (contains, resolve, to_direct).
    Accepted,
    /// The path accepted the key and exposed component data; `None` = the Key column read is
    /// corrupt, uninitialised or belongs to a value that was already dropped.
    Reached(Option<u32>),
    /// The call panicked (only produced when each call is caught individually).
    Panicked(String),
}

impl Look {
    pub fn accepted(&self) -> bool {
        matches!(self, Look::Accepted | Look::Reached(_))
    }
}

/// Lazily formatted name of a lookup path (formatting it for every call dominated the run time).
#[derive(Clone, Copy, Debug)]
pub enum PathId {
    Contains(Via, u8),
    ToDirect(Via, u8),
    Resolve(u8),
    Read(u8, u8),
}

impl std::fmt::Display for PathId {
    fn fmt(&self, f: &mut std::fmt::Formatter<'_>) -> std::fmt::Result {
        match self {
            PathId::Contains(via, k) => write!(f, "contains/{:?}/{}", via, KEY_KINDS[*k as usize]),
            PathId::ToDirect(via, k) => write!(f, "to_direct/{:?}/{}", via, KEY_KINDS[*k as usize]),
            PathId::Resolve(k) => write!(f, "resolve/{}", KEY_KINDS[*k as usize]),
            PathId::Read(p, k) => write!(f, "{}/{}", READ_PATH_NAMES[*p as usize], KEY_KINDS[*k as usize]),
        }
    }
}

#[derive(Clone, Debug)]
pub struct LookRes {
    pub path: PathId,
    /// Short class of the path ("contains", "to_direct", "resolve", "read") for signatures.
    pub class: &'static str,
    /// The call goes through the world (dispatching on the archetype byte), not through archetype A.
    pub world_level: bool,
    pub look: Look,
    pub bits: Option<Bits>,
    pub direct: Option<EntityDirectAny>,
}

fn is_world_level_read(path: u8) -> bool {
    matches!(path, RP_FIND_WILD | RP_FIND_ANYP | RP_FIND_BORROW_WILD | RP_FIND_BORROW_ANYP)
}

/// Calls contains (world, archetype), to_direct (world, archetype), resolve and every applicable
/// read path with `key`. With `catch_each` every call is caught on its own.
pub fn lookups<A: Arch>(world: &mut W, key: Hk<A>, catch_each: bool) -> Vec<LookRes> {
    lookups_opt::<A>(world, key, catch_each, false)
}

/// `give_up_after_panics`: once the first three calls have all panicked the rest is skipped (in the
/// debug-assertion build an out-of-range forged value trips the same `debug_assert!` on every path,
/// and unwinding dominates the run time; the assertion-free build goes through every path).
pub fn lookups_opt<A: Arch>(world: &mut W, key: Hk<A>, catch_each: bool, give_up_after_panics: bool) -> Vec<LookRes> {
    let kk = key.kind();
    let mut out: Vec<LookRes> = Vec::with_capacity(20);
    macro_rules! call {
        ($path:expr, $class:expr, $wl:expr, $body:expr) => {{
            let path: PathId = $path;
            if give_up_after_panics && out.len() >= 3 && out.iter().all(|r| matches!(r.look, Look::Panicked(_))) {
                // skip
            } else if catch_each {
                match catch_unwind(AssertUnwindSafe(|| $body)) {
                    Ok((look, bits, direct)) => out.push(LookRes { path, class: $class, world_level: $wl, look, bits, direct }),
                    Err(p) => out.push(LookRes { path, class: $class, world_level: $wl, look: Look::Panicked(panic_msg(&p)), bits: None, direct: None }),
                }
            } else {
                let (look, bits, direct) = $body;
                out.push(LookRes { path, class: $class, world_level: $wl, look, bits, direct });
            }
        }};
    }
    for via in [Via::World, Via::Arch] {
        call!(PathId::Contains(via, kk), "contains", via == Via::World, {
            (if A::x_contains(world, key, via) { Look::Accepted } else { Look::Rejected }, None, None)
        });
        call!(PathId::ToDirect(via, kk), "to_direct", via == Via::World, {
            let d = A::x_to_direct(world, key, via);
            (if d.is_some() { Look::Accepted } else { Look::Rejected }, None, d)
        });
    }
    call!(PathId::Resolve(kk), "resolve", false, {
        (if A::x_resolve(world, key).is_some() { Look::Accepted } else { Look::Rejected }, None, None)
    });
    for path in 0..N_READ_PATHS {
        if read_path_applicable(path, key.kind()) {
            call!(PathId::Read(path, kk), "read", is_world_level_read(path), {
                match A::read(world, key, path) {
                    Some(r) => (Look::Reached(r.uid()), r.bits, r.direct),
                    None => (Look::Rejected, None, None),
                }
            });
        }
    }
    out
}

/// destroy through both levels; returns whether any call destroyed something, and panics seen.
pub fn destroy_all_levels<A: Arch>(world: &mut W, key: Hk<A>, catch_each: bool) -> (bool, usize) {
    let mut destroyed = false;
    let mut panics = 0;
    for via in [Via::World, Via::Arch] {
        if catch_each {
            match catch_unwind(AssertUnwindSafe(|| A::x_destroy(world, key, via))) {
                Ok(r) => destroyed |= r.is_some(),
                Err(_) => panics += 1,
            }
        } else {
            destroyed |= A::x_destroy(world, key, via).is_some();
        }
    }
    (destroyed, panics)
}
