//! S-H: the 2^24 entities-per-archetype limit (C12, C10 "capacity overflow"). A light one-byte archetype is
//! driven to the limit from three starting capacities (0 = all the way through growth, 2^24-1, 2^24), the
//! boundary behaviour is checked, and then ALL operation suffixes up to a depth are explored from the full
//! state (each from a freshly built world).

use std::collections::BTreeSet;
use std::panic::{catch_unwind, AssertUnwindSafe};

use gecs::prelude::*;
use serde::Serialize;

use crate::cols::{Bya, Col};
use crate::sys::{panic_msg, Vio};

pub mod lw {
    use crate::cols::Bya;
    use gecs::prelude::*;
    ecs_world! {
        ecs_name!(LW);
        #[archetype_id(9)]
        ecs_archetype!(Lim, Bya);
    }
}
use lw::*;

pub const MAX: usize = 1 << 24;

#[derive(Clone, Copy, Debug, PartialEq, Eq, Serialize)]
pub enum LOp {
    Create,
    CreateWithin,
    DestroyFirst,
    DestroyMid,
    DestroyLast,
}
const LOPS: [LOp; 5] = [LOp::Create, LOp::CreateWithin, LOp::DestroyFirst, LOp::DestroyMid, LOp::DestroyLast];

#[derive(Serialize, Default)]
pub struct LimitStats {
    pub worlds_built: u64,
    pub suffixes: u64,
    pub suffix_depth: usize,
    pub overflow_panics: u64,
    pub within_refusals: u64,
    pub reuses_at_limit: u64,
    pub entities_created: u64,
    pub samples: Vec<Vec<LOp>>,
}

macro_rules! vio {
    ($oracle:expr, $($fmt:tt)*) => { return Err(Vio { prop: "C12".into(), oracle: $oracle.to_string(), msg: format!($($fmt)*) }) };
}

struct Full {
    w: LW,
    /// (uid, handle) of tracked entities: first, middle, last created, still alive
    tracked: Vec<(u32, Entity<Lim>)>,
    next_uid: u32,
    issued_late: BTreeSet<(u32, u32)>,
    dead: Vec<Entity<Lim>>,
}

fn build_full(cap0: usize, st: &mut LimitStats) -> Result<Full, Vio> {
    st.worlds_built += 1;
    let mut w = match catch_unwind(|| LW::with_capacity(LWCapacity { lim: cap0 })) {
        Ok(w) => w,
        Err(p) => vio!("with-capacity-panicked", "with_capacity({}) panicked: {}", cap0, panic_msg(&p)),
    };
    if w.lim.capacity() < cap0 || w.lim.len() != 0 {
        vio!("capacity-below-requested", "with_capacity({}) gives capacity {} len {}", cap0, w.lim.capacity(), w.lim.len());
    }
    let mut tracked = Vec::new();
    let mut last_cap = w.lim.capacity();
    for i in 0..MAX {
        let uid = i as u32 + 1;
        let before_cap = w.lim.capacity();
        let r = catch_unwind(AssertUnwindSafe(|| {
            if i < cap0 {
                // within the requested capacity no reallocation is needed: the non-growing call must succeed too
                w.create_within_capacity::<Lim>((Bya::make(uid, 0),)).ok()
            } else {
                Some(w.create::<Lim>((Bya::make(uid, 0),)))
            }
        }));
        let e = match r {
            Ok(Some(e)) => e,
            Ok(None) => vio!("within-capacity-refuses-with-room", "create_within_capacity refused entity {} although capacity {} was requested", i, cap0),
            Err(p) => vio!("create-fails-below-limit", "create of entity number {} (len {}, capacity {}) panicked: {} (started from capacity {})", i + 1, i, before_cap, panic_msg(&p), cap0),
        };
        let cap = w.lim.capacity();
        if cap < last_cap || cap > MAX || cap < i + 1 {
            vio!("capacity-arithmetic", "capacity went from {} to {} at len {}", last_cap, cap, i + 1);
        }
        last_cap = cap;
        if i == 0 || i == MAX / 2 || i == MAX - 1 {
            tracked.push((uid, e));
        }
    }
    st.entities_created += MAX as u64;
    if w.lim.len() != MAX || w.lim.capacity() != MAX {
        vio!("len-at-limit", "after {} creations len is {} capacity {}", MAX, w.lim.len(), w.lim.capacity());
    }
    Ok(Full { w, tracked, next_uid: MAX as u32 + 1, issued_late: BTreeSet::new(), dead: Vec::new() })
}

/// Whole-archetype accessors on a state with `len` entities (called with exactly 2^24): they must work at the limit like
/// anywhere else (a clean panic or a wrong length here is a violation; without assertions a wrong hint would be UB).
fn check_accessors(f: &mut Full, at: &str) -> Result<(), Vio> {
    let n = f.w.lim.len();
    let r = catch_unwind(AssertUnwindSafe(|| {
        let a = &mut f.w.lim;
        let e = a.entities().len();
        let g = a.get_slice::<Bya>().len();
        let gm = a.get_slice_mut::<Bya>().len();
        let b = a.borrow_slice::<Bya>().len();
        let bm = a.borrow_slice_mut::<Bya>().len();
        let s = { let s = a.get_all_slices_mut(); (s.entity.len(), s.bya.len()) };
        let it = a.iter().count();
        let mut q = 0usize;
        ecs_iter!(f.w, |_b: &Bya| { q += 1; });
        let mut qb = 0usize;
        ecs_iter_borrow!(f.w, |_b: &Bya, _e: &EntityAny| { qb += 1; });
        [e, g, gm, b, bm, s.0, s.1, it, q, qb]
    }));
    match r {
        Ok(lens) => {
            if lens.iter().any(|l| *l != n) {
                return Err(Vio { prop: "C06,C12".into(), oracle: "accessor-length-at-limit".into(), msg: format!("{}: len() = {} but entities / get_slice / get_slice_mut / borrow_slice / borrow_slice_mut / all slices (entity, column) / iter / ecs_iter! / ecs_iter_borrow! report {:?}", at, n, lens) });
            }
        }
        Err(p) => return Err(Vio { prop: "C06,C12".into(), oracle: "accessor-panicked-at-limit".into(), msg: format!("{}: a whole-archetype accessor panicked with len() = {}: {}", at, n, panic_msg(&p)) }),
    }
    Ok(())
}

fn check_tracked(f: &mut Full, at: &str) -> Result<(), Vio> {
    for (uid, e) in f.tracked.clone() {
        let got = f.w.view(e).map(|v| Col::digest(v.component::<Bya>()));
        if got != Some(Bya::expect(uid, 0)) {
            vio!("entity-corrupted-at-limit", "{}: entity uid {} ({:?}) reads {:?}", at, uid, e, got);
        }
    }
    for e in f.dead.clone() {
        if f.w.contains(e) || f.w.contains(e.into_any()) {
            return Err(Vio { prop: "C01".into(), oracle: "stale-handle-accepted:contains".into(), msg: format!("{}: destroyed handle {:?} is contained", at, e) });
        }
    }
    Ok(())
}

fn apply(f: &mut Full, op: LOp, st: &mut LimitStats) -> Result<(), Vio> {
    let len0 = f.w.lim.len();
    let cap0 = f.w.lim.capacity();
    let d0 = (f.w.lim.len(), f.w.lim.capacity(), f.w.lim.version());
    match op {
        LOp::Create | LOp::CreateWithin => {
            let uid = f.next_uid;
            f.next_uid += 1;
            let w = &mut f.w;
            let r = catch_unwind(AssertUnwindSafe(|| {
                if op == LOp::Create {
                    Ok(w.create::<Lim>((Bya::make(uid, 0),)))
                } else {
                    w.create_within_capacity::<Lim>((Bya::make(uid, 0),)).map_err(|c| Col::digest(&c.bya))
                }
            }));
            match r {
                Err(p) => {
                    let msg = panic_msg(&p);
                    if !(op == LOp::Create && len0 == MAX && msg.contains("capacity overflow")) {
                        vio!("create-fails-below-limit", "{:?} at len {} capacity {} panicked: {}", op, len0, cap0, msg);
                    }
                    st.overflow_panics += 1;
                    if f.w.lim.len() != len0 || f.w.lim.capacity() != cap0 || (f.w.lim.len(), f.w.lim.capacity(), f.w.lim.version()) != d0 {
                        return Err(Vio { prop: "C10".into(), oracle: "capacity-overflow-panic-mutated-world".into(), msg: format!("the capacity overflow panic changed the archetype: len {}->{}, capacity {}->{}", len0, f.w.lim.len(), cap0, f.w.lim.capacity()) });
                    }
                }
                Ok(Err(dig)) => {
                    if len0 < cap0 {
                        vio!("within-capacity-refuses-with-room", "create_within_capacity failed with len {} < capacity {}", len0, cap0);
                    }
                    if dig != Bya::expect(uid, 0) {
                        vio!("within-capacity-returns-argument", "create_within_capacity handed back something else than its argument");
                    }
                    st.within_refusals += 1;
                    if f.w.lim.len() != len0 || f.w.lim.capacity() != cap0 {
                        vio!("len-after-failed-create", "a failed create_within_capacity changed len/capacity");
                    }
                }
                Ok(Ok(e)) => {
                    if len0 >= MAX {
                        vio!("create-beyond-limit", "{:?} succeeded with {} entities alive", op, len0);
                    }
                    let bits = e.into_any().raw();
                    // the archetype was full once: every position has been handed out with generation 1
                    if bits.1 < 2 || !f.issued_late.insert(bits) || f.dead.iter().any(|d| d.into_any().raw() == bits) {
                        return Err(Vio { prop: "C08".into(), oracle: "handle-reissued".into(), msg: format!("create at the limit returned {:?} which was issued before", e) });
                    }
                    if f.w.lim.len() != len0 + 1 || f.w.lim.capacity() != cap0 {
                        vio!("len-after-create", "len {} -> {}, capacity {} -> {} on a create below capacity", len0, f.w.lim.len(), cap0, f.w.lim.capacity());
                    }
                    st.reuses_at_limit += 1;
                    f.tracked.push((uid, e));
                }
            }
        }
        LOp::DestroyFirst | LOp::DestroyMid | LOp::DestroyLast => {
            if f.tracked.is_empty() {
                return Ok(());
            }
            let i = match op {
                LOp::DestroyFirst => 0,
                LOp::DestroyMid => f.tracked.len() / 2,
                _ => f.tracked.len() - 1,
            };
            let (uid, e) = f.tracked.remove(i);
            let r = if uid % 2 == 0 { f.w.destroy(e).map(|c| Col::digest(&c.bya)) } else { f.w.lim.destroy(e.into_any()).map(|c| Col::digest(&c.bya)) };
            if r != Some(Bya::expect(uid, 0)) {
                return Err(Vio { prop: "C02".into(), oracle: "destroy-returned-wrong-values".into(), msg: format!("destroy of uid {} at the limit returned {:?}", uid, r) });
            }
            if f.w.lim.len() + 1 != len0 || f.w.lim.capacity() != cap0 {
                vio!("len-after-destroy", "len {} -> {} on destroy", len0, f.w.lim.len());
            }
            f.dead.push(e);
        }
    }
    check_tracked(f, &format!("after {:?}", op))
}

pub fn run_limit(depth: usize) -> (Vec<Vio>, LimitStats) {
    let mut st = LimitStats { suffix_depth: depth, ..Default::default() };
    let mut out: Vec<Vio> = Vec::new();
    // beyond the limit: with_capacity must panic, cleanly
    match catch_unwind(|| LW::with_capacity(LWCapacity { lim: MAX + 1 })) {
        Ok(_) => out.push(Vio { prop: "C12".into(), oracle: "with-capacity-beyond-limit-accepted".into(), msg: "with_capacity(2^24 + 1) did not panic".into() }),
        Err(p) => {
            if !panic_msg(&p).contains("capacity may not exceed") {
                out.push(Vio { prop: "C12".into(), oracle: "with-capacity-beyond-limit-wrong-panic".into(), msg: format!("with_capacity(2^24 + 1) panicked with '{}'", panic_msg(&p)) });
            }
        }
    }
    // every operation suffix up to `depth` from the full state, for each starting capacity
    let caps: Vec<usize> = vec![MAX - 1, MAX, 0];
    for cap0 in caps {
        let mut suffixes: Vec<Vec<LOp>> = vec![vec![]];
        let mut cur: Vec<Vec<LOp>> = vec![vec![]];
        // the deep suffix space is explored from one starting capacity; the other two get depth <= 1
        let d = if cap0 == MAX - 1 { depth } else { depth.min(1) };
        for _ in 0..d {
            cur = cur.into_iter().flat_map(|p| LOPS.iter().map(move |o| { let mut q = p.clone(); q.push(*o); q })).collect();
            suffixes.extend(cur.iter().cloned());
        }
        // suffixes that are prefixes of longer ones are covered by them: run only the maximal ones (plus the empty one when d = 0)
        let maximal: Vec<Vec<LOp>> = suffixes.iter().filter(|s| s.len() == d).cloned().collect();
        for s in maximal {
            let r = (|| -> Result<(), Vio> {
                let mut f = build_full(cap0, &mut st)?;
                check_tracked(&mut f, "at the limit")?;
                check_accessors(&mut f, "at the limit")?;
                // at the limit: create panics, create_within_capacity refuses - both leave everything untouched
                apply(&mut f, LOp::Create, &mut st)?;
                apply(&mut f, LOp::CreateWithin, &mut st)?;
                for op in &s {
                    apply(&mut f, *op, &mut st)?;
                }
                Ok(())
            })();
            st.suffixes += 1;
            if st.samples.len() < 4 && !s.is_empty() {
                st.samples.push(s.clone());
            }
            if let Err(mut v) = r {
                v.msg = format!("{} [initial capacity {}, suffix {:?}]", v.msg, cap0, s);
                if !out.iter().any(|o| o.oracle == v.oracle) {
                    out.push(v);
                }
                break;
            }
        }
    }
    (out, st)
}
