//! Instrumented component ("column") types and the thread-local drop/clone registry.
//!
//! Every column value is *self-describing*: it is built from `(uid, val)` and can be asked for a
//! digest that must equal `Col::expect(uid, val)`. A value that was shifted by a row, swapped with
//! another column of the same Rust type, read after being dropped or never initialised gives a
//! different digest (or `BAD_*`).

use std::cell::RefCell;
use std::collections::HashSet;

pub const BAD_CORRUPT: u64 = 0xBAD0_0000_0000_0001;
pub const BAD_DEAD: u64 = 0xBAD0_0000_0000_0002;

#[derive(Default, Clone, Debug)]
pub struct FaultPlan {
    /// Panic inside the k-th (1-based) tracked `Clone::clone` call from now.
    pub clone_at: Option<u32>,
    /// Panic inside the k-th (1-based) tracked `Drop::drop` call from now.
    pub drop_at: Option<u32>,
}

#[derive(Default)]
pub struct Registry {
    next_inst: u32,
    pub live: HashSet<u32>,
    pub double_drops: Vec<u32>,
    pub z_live: i64,
    pub z_underflow: u32,
    pub clones: u64,
    pub drops: u64,
    pub creates: u64,
    /// Clone::clone calls of `Pad`: a type WITHOUT drop glue whose Clone is nevertheless observable
    pub plain_clones: u64,
    pub clone_calls_since_arm: u32,
    pub drop_calls_since_arm: u32,
    pub fault: FaultPlan,
    pub faults_fired: u32,
}

thread_local! {
    pub static REG: RefCell<Registry> = RefCell::new(Registry::default());
}

pub const FAULT_MSG_CLONE: &str = "hx-injected Clone fault";
pub const FAULT_MSG_DROP: &str = "hx-injected Drop fault";

pub fn reg_reset() {
    REG.with(|r| *r.borrow_mut() = Registry::default());
}

pub fn reg_arm(plan: FaultPlan) {
    REG.with(|r| {
        let mut r = r.borrow_mut();
        r.fault = plan;
        r.clone_calls_since_arm = 0;
        r.drop_calls_since_arm = 0;
    });
}

pub fn reg_disarm() {
    reg_arm(FaultPlan::default());
}

pub fn reg_is_live(inst: u32) -> bool {
    REG.with(|r| r.borrow().live.contains(&inst))
}

#[derive(Clone, Debug, Default, PartialEq, Eq)]
pub struct RegSnapshot {
    pub live: usize,
    pub double_drops: usize,
    pub z_live: i64,
    pub z_underflow: u32,
    pub clones: u64,
    pub drops: u64,
    pub creates: u64,
    pub plain_clones: u64,
    pub faults_fired: u32,
}

pub fn reg_snapshot() -> RegSnapshot {
    REG.with(|r| {
        let r = r.borrow();
        RegSnapshot {
            live: r.live.len(),
            double_drops: r.double_drops.len(),
            z_live: r.z_live,
            z_underflow: r.z_underflow,
            clones: r.clones,
            drops: r.drops,
            creates: r.creates,
            plain_clones: r.plain_clones,
            faults_fired: r.faults_fired,
        }
    })
}

fn reg_new_inst() -> u32 {
    REG.with(|r| {
        let mut r = r.borrow_mut();
        r.next_inst += 1;
        let i = r.next_inst;
        r.live.insert(i);
        r.creates += 1;
        i
    })
}

/// Returns Some(msg) if a clone fault must fire now. Called BEFORE the clone is registered.
fn reg_on_clone() -> Option<&'static str> {
    REG.with(|r| {
        let mut r = r.borrow_mut();
        r.clone_calls_since_arm += 1;
        if let Some(k) = r.fault.clone_at {
            if r.clone_calls_since_arm == k {
                r.fault.clone_at = None;
                r.faults_fired += 1;
                return Some(FAULT_MSG_CLONE);
            }
        }
        r.clones += 1;
        None
    })
}

/// Registers the drop of `inst` (the value IS gone afterwards, even if we then panic).
fn reg_on_drop(inst: u32) -> Option<&'static str> {
    REG.with(|r| {
        let mut r = r.borrow_mut();
        r.drops += 1;
        if !r.live.remove(&inst) {
            r.double_drops.push(inst);
        }
        r.drop_calls_since_arm += 1;
        if let Some(k) = r.fault.drop_at {
            if r.drop_calls_since_arm == k {
                r.fault.drop_at = None;
                r.faults_fired += 1;
                return Some(FAULT_MSG_DROP);
            }
        }
        None
    })
}

#[inline]
pub fn mix(uid: u32, tag: u32, val: u32) -> u64 {
    // splitmix-style; only needs to separate (uid, tag, val) triples
    let mut z = ((uid as u64) << 40) ^ ((tag as u64) << 32) ^ (val as u64) ^ 0x9E37_79B9_7F4A_7C15;
    z = (z ^ (z >> 30)).wrapping_mul(0xBF58_476D_1CE4_E5B9);
    z = (z ^ (z >> 27)).wrapping_mul(0x94D0_49BB_1331_11EB);
    z ^ (z >> 31)
}

pub trait Col: Clone + 'static {
    const TAG: u32;
    fn make(uid: u32, val: u32) -> Self;
    /// Observation of the stored value (what a reader sees).
    fn digest(&self) -> u64;
    /// The digest a correct value for `(uid, val)` has.
    fn expect(uid: u32, val: u32) -> u64;
    /// Overwrite the payload in place (a component write).
    fn set(&mut self, uid: u32, val: u32);
}

// ---------------------------------------------------------------------------------------------
// Tracked types: Key (always column 0, carries the uid) and Trk (a second tracked type).
// ---------------------------------------------------------------------------------------------

const KEY_MAGIC: u32 = 0x4B45_5921;
const TRK_MAGIC: u32 = 0x5452_4B21;
const TRL_MAGIC: u32 = 0x5452_4C21;

macro_rules! tracked {
    ($name:ident, $magic:expr, $tag:expr, $pad:expr) => {
        pub struct $name {
            magic: u32,
            pub uid: u32,
            pub val: u32,
            pub inst: u32,
            sum: u32,
            /// inline ballast (Trk: 300 bytes, so that a type WITH drop glue is larger than any "small element" threshold)
            pad: [u8; $pad],
        }

        impl $name {
            fn checksum(uid: u32, val: u32, inst: u32) -> u32 {
                (mix(uid, $tag, val) as u32) ^ inst.rotate_left(7) ^ $magic
            }
            pub fn valid(&self) -> bool {
                self.magic == $magic && self.sum == Self::checksum(self.uid, self.val, self.inst) && self.pad.iter().enumerate().all(|(i, b)| *b == (self.inst as u8) ^ (i as u8))
            }
        }

        impl Clone for $name {
            fn clone(&self) -> Self {
                if let Some(msg) = reg_on_clone() {
                    panic!("{}", msg);
                }
                let inst = reg_new_inst();
                REG.with(|r| r.borrow_mut().creates -= 1); // a clone, not a creation
                let mut pad = [0u8; $pad];
                for (i, b) in pad.iter_mut().enumerate() {
                    *b = (inst as u8) ^ (i as u8);
                }
                Self {
                    magic: self.magic,
                    uid: self.uid,
                    val: self.val,
                    inst,
                    sum: if self.valid() { Self::checksum(self.uid, self.val, inst) } else { 0 },
                    pad,
                }
            }
        }

        impl Drop for $name {
            fn drop(&mut self) {
                if self.magic != $magic {
                    // Dropping garbage: record as a double drop of an impossible instance.
                    REG.with(|r| r.borrow_mut().double_drops.push(u32::MAX));
                    return;
                }
                let fault = reg_on_drop(self.inst);
                if let Some(msg) = fault {
                    if !std::thread::panicking() {
                        panic!("{}", msg);
                    }
                }
            }
        }

        impl Col for $name {
            const TAG: u32 = $tag;
            fn make(uid: u32, val: u32) -> Self {
                let inst = reg_new_inst();
                let mut pad = [0u8; $pad];
                for (i, b) in pad.iter_mut().enumerate() {
                    *b = (inst as u8) ^ (i as u8);
                }
                Self { magic: $magic, uid, val, inst, sum: Self::checksum(uid, val, inst), pad }
            }
            fn digest(&self) -> u64 {
                if !self.valid() {
                    BAD_CORRUPT
                } else if !reg_is_live(self.inst) {
                    BAD_DEAD
                } else {
                    ((self.uid as u64) << 32) | self.val as u64
                }
            }
            fn expect(uid: u32, val: u32) -> u64 {
                ((uid as u64) << 32) | val as u64
            }
            fn set(&mut self, uid: u32, val: u32) {
                self.uid = uid;
                self.val = val;
                self.sum = Self::checksum(uid, val, self.inst);
            }
        }
    };
}

tracked!(Key, KEY_MAGIC, 1, 0);
tracked!(Trk, TRK_MAGIC, 15, 300);
// third tracked type: the LAST column of the 32-column archetype
tracked!(Trl, TRL_MAGIC, 32, 0);

// ---------------------------------------------------------------------------------------------
// Zero-sized types. Zed has Drop + a counting Clone; Zno is a plain ZST.
// ---------------------------------------------------------------------------------------------

pub struct Zed;

impl Zed {
    fn born() {
        REG.with(|r| r.borrow_mut().z_live += 1);
    }
}

impl Clone for Zed {
    fn clone(&self) -> Self {
        Zed::born();
        Zed
    }
}

impl Drop for Zed {
    fn drop(&mut self) {
        REG.with(|r| {
            let mut r = r.borrow_mut();
            r.z_live -= 1;
            if r.z_live < 0 {
                r.z_underflow += 1;
            }
        });
    }
}

impl Col for Zed {
    const TAG: u32 = 2;
    fn make(_: u32, _: u32) -> Self {
        Zed::born();
        Zed
    }
    fn digest(&self) -> u64 {
        0
    }
    fn expect(_: u32, _: u32) -> u64 {
        0
    }
    fn set(&mut self, _: u32, _: u32) {}
}

/// Second zero-sized type with Drop (same registry counters as Zed): the last column of the 24-column archetype.
pub struct Zee;

impl Clone for Zee {
    fn clone(&self) -> Self {
        Zed::born();
        Zee
    }
}

impl Drop for Zee {
    fn drop(&mut self) {
        REG.with(|r| {
            let mut r = r.borrow_mut();
            r.z_live -= 1;
            if r.z_live < 0 {
                r.z_underflow += 1;
            }
        });
    }
}

impl Col for Zee {
    const TAG: u32 = 24;
    fn make(_: u32, _: u32) -> Self {
        Zed::born();
        Zee
    }
    fn digest(&self) -> u64 {
        0
    }
    fn expect(_: u32, _: u32) -> u64 {
        0
    }
    fn set(&mut self, _: u32, _: u32) {}
}

#[derive(Clone)]
pub struct Zno;

impl Col for Zno {
    const TAG: u32 = 14;
    fn make(_: u32, _: u32) -> Self {
        Zno
    }
    fn digest(&self) -> u64 {
        0
    }
    fn expect(_: u32, _: u32) -> u64 {
        0
    }
    fn set(&mut self, _: u32, _: u32) {}
}

// ---------------------------------------------------------------------------------------------
// Plain-data shapes of different sizes and alignments.
// ---------------------------------------------------------------------------------------------

/// Over-aligned (64 > the 16 that malloc guarantees), (u8, u64) with padding. (u128 in `Byf` covers alignment 16.)
#[repr(align(64))]
pub struct Pad(pub u8, pub u64);

/// No Drop, no owning field — but a hand-written Clone that counts: "no drop glue" must not be mistaken for "is Copy".
impl Clone for Pad {
    fn clone(&self) -> Self {
        REG.with(|r| r.borrow_mut().plain_clones += 1);
        Pad(self.0, self.1)
    }
}

impl Col for Pad {
    const TAG: u32 = 3;
    fn make(uid: u32, val: u32) -> Self {
        let m = mix(uid, Self::TAG, val);
        Pad(m as u8, m.rotate_left(17))
    }
    fn digest(&self) -> u64 {
        (self.0 as u64) ^ self.1.rotate_left(5)
    }
    fn expect(uid: u32, val: u32) -> u64 {
        Self::make(uid, val).digest()
    }
    fn set(&mut self, uid: u32, val: u32) {
        *self = Self::make(uid, val);
    }
}

macro_rules! plain_int {
    ($name:ident, $ty:ty, $tag:expr) => {
        #[derive(Clone)]
        pub struct $name(pub $ty);
        impl Col for $name {
            const TAG: u32 = $tag;
            fn make(uid: u32, val: u32) -> Self {
                let m = mix(uid, Self::TAG, val);
                $name(((m as u128) | ((m.rotate_left(31) as u128) << 64)) as $ty)
            }
            fn digest(&self) -> u64 {
                let x = self.0 as u128;
                (x as u64) ^ ((x >> 64) as u64).rotate_left(9)
            }
            fn expect(uid: u32, val: u32) -> u64 {
                Self::make(uid, val).digest()
            }
            fn set(&mut self, uid: u32, val: u32) {
                *self = Self::make(uid, val);
            }
        }
    };
}

plain_int!(Bya, u8, 4);
plain_int!(Byb, u16, 5);
plain_int!(Byd, u32, 7);
plain_int!(Bye, u64, 8);
plain_int!(Byf, u128, 9);

/// 3 bytes, alignment 1.
#[derive(Clone)]
pub struct Byc(pub [u8; 3]);

impl Col for Byc {
    const TAG: u32 = 6;
    fn make(uid: u32, val: u32) -> Self {
        let m = mix(uid, Self::TAG, val);
        Byc([m as u8, (m >> 8) as u8, (m >> 16) as u8])
    }
    fn digest(&self) -> u64 {
        (self.0[0] as u64) | ((self.0[1] as u64) << 8) | ((self.0[2] as u64) << 16)
    }
    fn expect(uid: u32, val: u32) -> u64 {
        Self::make(uid, val).digest()
    }
    fn set(&mut self, uid: u32, val: u32) {
        *self = Self::make(uid, val);
    }
}

/// 32 bytes.
#[derive(Clone)]
pub struct Arr(pub [u32; 8]);

impl Col for Arr {
    const TAG: u32 = 10;
    fn make(uid: u32, val: u32) -> Self {
        let mut a = [0u32; 8];
        for (i, x) in a.iter_mut().enumerate() {
            *x = mix(uid, Self::TAG + 100 * i as u32, val) as u32;
        }
        Arr(a)
    }
    fn digest(&self) -> u64 {
        let mut d = 0u64;
        for (i, x) in self.0.iter().enumerate() {
            d = d.rotate_left(7) ^ ((*x as u64) + i as u64);
        }
        d
    }
    fn expect(uid: u32, val: u32) -> u64 {
        Self::make(uid, val).digest()
    }
    fn set(&mut self, uid: u32, val: u32) {
        *self = Self::make(uid, val);
    }
}

// ---------------------------------------------------------------------------------------------
// Heap-owning shapes (watched by ASan / LSan / Miri; natively a double free usually aborts).
// ---------------------------------------------------------------------------------------------

#[derive(Clone)]
pub struct Txt(pub String);

impl Col for Txt {
    const TAG: u32 = 11;
    fn make(uid: u32, val: u32) -> Self {
        Txt(format!("u{}v{}:{:016x}", uid, val, mix(uid, Self::TAG, val)))
    }
    fn digest(&self) -> u64 {
        xxhash_rust::xxh3::xxh3_64(self.0.as_bytes())
    }
    fn expect(uid: u32, val: u32) -> u64 {
        xxhash_rust::xxh3::xxh3_64(
            format!("u{}v{}:{:016x}", uid, val, mix(uid, Self::TAG, val)).as_bytes(),
        )
    }
    fn set(&mut self, uid: u32, val: u32) {
        *self = Self::make(uid, val);
    }
}

#[derive(Clone)]
pub struct Bxd(pub Box<u64>);

impl Col for Bxd {
    const TAG: u32 = 12;
    fn make(uid: u32, val: u32) -> Self {
        Bxd(Box::new(mix(uid, Self::TAG, val)))
    }
    fn digest(&self) -> u64 {
        *self.0
    }
    fn expect(uid: u32, val: u32) -> u64 {
        mix(uid, Self::TAG, val)
    }
    fn set(&mut self, uid: u32, val: u32) {
        *self.0 = mix(uid, Self::TAG, val);
    }
}

/// Heap-owning type in the FIRST column beyond 16 (position 17).
#[derive(Clone)]
pub struct Bxe(pub Box<u64>);

impl Col for Bxe {
    const TAG: u32 = 17;
    fn make(uid: u32, val: u32) -> Self {
        Bxe(Box::new(mix(uid, Self::TAG, val)))
    }
    fn digest(&self) -> u64 {
        *self.0
    }
    fn expect(uid: u32, val: u32) -> u64 {
        mix(uid, Self::TAG, val)
    }
    fn set(&mut self, uid: u32, val: u32) {
        *self.0 = mix(uid, Self::TAG, val);
    }
}

#[derive(Clone)]
pub struct Opt(pub Option<Box<u32>>);

impl Col for Opt {
    const TAG: u32 = 13;
    fn make(uid: u32, val: u32) -> Self {
        let m = mix(uid, Self::TAG, val);
        if m & 1 == 0 {
            Opt(None)
        } else {
            Opt(Some(Box::new((m >> 8) as u32)))
        }
    }
    fn digest(&self) -> u64 {
        match &self.0 {
            None => 0x4E4F_4E45,
            Some(b) => 0x5000_0000_0000 | **b as u64,
        }
    }
    fn expect(uid: u32, val: u32) -> u64 {
        Self::make(uid, val).digest()
    }
    fn set(&mut self, uid: u32, val: u32) {
        *self = Self::make(uid, val);
    }
}

/// Larger than a page (5000 bytes, inline): rows of more than 4 KiB.
#[derive(Clone)]
pub struct Big(pub [u8; 5000]);

impl Col for Big {
    const TAG: u32 = 33;
    fn make(uid: u32, val: u32) -> Self {
        let m = mix(uid, Self::TAG, val);
        let mut b = [0u8; 5000];
        for (i, x) in b.iter_mut().enumerate() {
            *x = (m >> (8 * (i % 8))) as u8 ^ (i as u8).wrapping_mul(31);
        }
        Big(b)
    }
    fn digest(&self) -> u64 {
        xxhash_rust::xxh3::xxh3_64(&self.0)
    }
    fn expect(uid: u32, val: u32) -> u64 {
        Self::make(uid, val).digest()
    }
    fn set(&mut self, uid: u32, val: u32) {
        *self = Self::make(uid, val);
    }
}

#[derive(Clone)]
pub struct Vek(pub Vec<u8>);

impl Col for Vek {
    const TAG: u32 = 16;
    fn make(uid: u32, val: u32) -> Self {
        let m = mix(uid, Self::TAG, val);
        let n = (m % 5) as usize; // includes the empty (non-allocating) vector
        Vek((0..n).map(|i| (m >> (8 * i)) as u8).collect())
    }
    fn digest(&self) -> u64 {
        xxhash_rust::xxh3::xxh3_64(&self.0) ^ self.0.len() as u64
    }
    fn expect(uid: u32, val: u32) -> u64 {
        Self::make(uid, val).digest()
    }
    fn set(&mut self, uid: u32, val: u32) {
        *self = Self::make(uid, val);
    }
}

// Thirteen further u32-sized columns, used only for the 17..32-column archetypes (positions 17, 24 and 32 are the
// heap-owning Bxe, the zero-sized Drop type Zee and the tracked Trl).
macro_rules! extra_cols {
    ($( $name:ident = $tag:expr ),*) => {
        $( plain_int!($name, u32, $tag); )*
    };
}

extra_cols!(
    Xab = 18, Xac = 19, Xad = 20, Xae = 21, Xaf = 22, Xag = 23,
    Xai = 25, Xaj = 26, Xak = 27, Xal = 28, Xam = 29, Xan = 30, Xao = 31
);
