//! Per-state probe suites (the oracles of C01, C02, C03, C06, C09, C12, C14, C17) and the
//! destructive epilogue (refill to capacity, destroy everything, drop, registry: C04, C08, C12, C13).

use std::collections::{BTreeMap, BTreeSet};
use std::panic::{catch_unwind, AssertUnwindSafe};

use gecs::__internal::VerifDump;
use gecs::prelude::*;
use gecs::version::ArchetypeVersion;

use crate::cols::*;
use crate::look::*;
use crate::sys::*;
use crate::world::*;
use crate::{ensure, ensure_soft, vio};

const FREE_BIT: u32 = 1 << 31;
const FREE_END: u32 = u32::MAX;
pub const MAX_POS: u32 = (1 << 24) - 1;

/// An `ArchetypeVersion` with an arbitrary number, read from a donor world (safe code can do the
/// same by churning a donor archetype; the H2 hook only makes it O(1)).
pub fn version_value(n: u32) -> ArchetypeVersion {
    let mut donor = W::new();
    <One as Arch>::preset(&mut donor, 1, n);
    <One as Arch>::x_version(&donor)
}

/// Dense index carried by a direct handle (there is no public accessor; Debug prints it).
pub fn direct_index_of(d: &EntityDirectAny) -> usize {
    let s = format!("{:?}", d);
    let k = s.find("dense_index: ").expect("Debug format of EntityDirectAny") + 13;
    s[k..].chars().take_while(|c| c.is_ascii_digit()).collect::<String>().parse().unwrap()
}

pub fn arch_of_id(id: u8) -> Option<usize> {
    (0..NARCH).find(|a| arch_id(*a) == id)
}

/// Force arbitrary bits into a typed handle through the safe `&mut Entity<A> -> &mut EntityAny` conversion.
pub fn typed_via_mut_ref<A: Arch>(seed: Entity<A>, any: EntityAny) -> Entity<A> {
    let mut e = seed;
    {
        let r: &mut EntityAny = (&mut e).into();
        *r = any;
    }
    e
}

pub fn typed_direct_via_mut_ref<A: Arch>(seed: EntityDirect<A>, any: EntityDirectAny) -> EntityDirect<A> {
    let mut e = seed;
    {
        let r: &mut EntityDirectAny = (&mut e).into();
        *r = any;
    }
    e
}

impl Sys {
    pub fn probe_all(&mut self) -> R {
        self.c.probes += 1;
        for w in 0..self.worlds.len() {
            if !self.world_alive(w) {
                continue;
            }
            self.check_repr(w)?;
            if self.sc.want("C12") {
                self.probe_len_cap(w)?;
            }
            if self.sc.want("C17") {
                self.probe_events(w)?;
            }
            if self.sc.want("C01") {
                self.probe_c01(w)?;
            }
            if self.sc.want("C06") {
                self.probe_c06(w)?;
            }
            if self.sc.want("C09") {
                self.probe_c09(w)?;
            }
            if self.sc.want("C14") {
                self.probe_c14(w)?;
            }
            if self.sc.want("C03") {
                self.probe_c03(w)?;
            }
            if self.sc.want("C02") {
                self.probe_c02(w)?;
            }
        }
        Ok(())
    }

    // -----------------------------------------------------------------------------------------
    // Representation invariants from the H1 dump (the mechanisms the anchors of C01 / C12 name).
    // -----------------------------------------------------------------------------------------

    pub fn check_repr(&mut self, w: usize) -> R {
        for a in 0..NARCH {
            let d = self.dump_of(w, a);
            let name = ARCH_NAMES[a];
            ensure_soft!(self.sc, d.len <= d.capacity && d.slots.len() == d.capacity && d.entities.len() == d.len, "C12", "repr:len-capacity", "{}: len {} capacity {} slots {} entities {}", name, d.len, d.capacity, d.slots.len(), d.entities.len());
            let m = &self.models[w];
            let mut dense: BTreeSet<Bits> = BTreeSet::new();
            for (j, (key, gen)) in d.entities.iter().enumerate() {
                let pos = (key >> 8) as usize;
                ensure_soft!(self.sc, (key & 0xff) as u8 == arch_id(a), "C01", "repr:dense-archetype-byte", "{}: dense entry {} carries archetype byte {}", name, j, key & 0xff);
                ensure_soft!(self.sc, pos < d.capacity, "C01", "repr:dense-slot-out-of-range", "{}: dense entry {} points to slot {} >= capacity {}", name, j, pos, d.capacity);
                let (word, sg) = d.slots[pos];
                ensure_soft!(self.sc, word & FREE_BIT == 0, "C01", "repr:live-slot-flagged-free", "{}: slot {} of live dense entry {} is flagged free", name, pos, j);
                ensure_soft!(self.sc, word as usize == j, "C01", "repr:slot-dense-mismatch", "{}: slot {} points to dense {} but dense entry {} points back to it", name, pos, word, j);
                ensure_soft!(self.sc, sg == *gen, "C01", "repr:generation-mismatch", "{}: slot {} has generation {} but its dense entry has {}", name, pos, sg, gen);
                ensure_soft!(self.sc, dense.insert((*key, *gen)), "C01", "repr:duplicate-dense-entry", "{}: handle {:?} appears twice in the dense array", name, (key, gen));
            }
            let nonfree = d.slots.iter().filter(|s| s.0 & FREE_BIT == 0).count();
            ensure_soft!(self.sc, nonfree == d.len, "C01", "repr:non-free-slot-count", "{}: {} slots are not flagged free but len is {}", name, nonfree, d.len);
            let model_set: BTreeSet<Bits> = m.order[a].iter().cloned().collect();
            ensure_soft!(self.sc, dense == model_set, "C01", "repr:dense-set-differs-from-model", "{}: stored handles {:?} != live handles of the model {:?}", name, dense, model_set);
            // free list: exactly capacity-len positions, each once, all flagged free, properly terminated
            let mut seen = BTreeSet::new();
            let mut cur = d.free_head;
            loop {
                ensure_soft!(self.sc, cur & FREE_BIT != 0, "C12", "repr:free-list-link-not-free", "{}: free list link {:#x} lacks the free flag", name, cur);
                if cur == FREE_END {
                    break;
                }
                let pos = (cur & !FREE_BIT) as usize;
                ensure_soft!(self.sc, pos < d.capacity, "C12", "repr:free-list-out-of-range", "{}: free list reaches position {} >= capacity {}", name, pos, d.capacity);
                ensure_soft!(self.sc, seen.insert(pos), "C12", "repr:free-list-cycle", "{}: free list visits position {} twice", name, pos);
                ensure_soft!(self.sc, d.slots[pos].0 & FREE_BIT != 0, "C12", "repr:free-list-contains-live-slot", "{}: free list contains live slot {}", name, pos);
                cur = d.slots[pos].0;
            }
            ensure_soft!(self.sc, seen.len() == d.capacity - d.len, "C12", "repr:free-list-length", "{}: free list has {} positions, capacity-len is {}", name, seen.len(), d.capacity - d.len);
        }
        Ok(())
    }

    fn probe_len_cap(&mut self, w: usize) -> R {
        for a in 0..NARCH {
            let (len, cap, empty) = with_arch!(a, A => <A as Arch>::len_cap(self.world(w)));
            let m = &self.models[w];
            let n = m.order[a].len();
            ensure!(len == n, "C12", "len-differs-from-live-count", "{}: len() is {} but {} entities are alive", ARCH_NAMES[a], len, n);
            ensure!(empty == (n == 0), "C12", "is-empty-disagrees", "{}: is_empty() is {} with {} live entities", ARCH_NAMES[a], empty, n);
            ensure!(cap >= len, "C12", "capacity-below-len", "{}: capacity {} < len {}", ARCH_NAMES[a], cap, len);
            ensure!(cap >= m.init_cap[a], "C12", "capacity-below-requested", "{}: capacity {} < requested initial capacity {}", ARCH_NAMES[a], cap, m.init_cap[a]);
            ensure!(cap >= m.last_cap[a], "C12", "capacity-decreased", "{}: capacity {} < earlier capacity {}", ARCH_NAMES[a], cap, m.last_cap[a]);
        }
        Ok(())
    }

    // -----------------------------------------------------------------------------------------
    // C17 events
    // -----------------------------------------------------------------------------------------

    fn probe_events(&mut self, w: usize) -> R {
        #[cfg(feature = "events")]
        {
            let mut all_c: Vec<Bits> = Vec::new();
            let mut all_d: Vec<Bits> = Vec::new();
            for a in 0..NARCH {
                let world = self.worlds[w].as_ref().unwrap();
                let (mut c, mut d) = guard("C17", "iter_created/iter_destroyed", || Ok(with_arch!(a, A => <A as Arch>::events(world))))?;
                let m = &self.models[w];
                let (mut mc, mut md) = (m.ev_created[a].clone(), m.ev_destroyed[a].clone());
                all_c.extend(mc.iter().cloned());
                all_d.extend(md.iter().cloned());
                c.sort();
                d.sort();
                mc.sort();
                md.sort();
                ensure!(c == mc, "C17", "created-log-differs", "{}: created events {:?}, expected {:?}", ARCH_NAMES[a], c, mc);
                ensure!(d == md, "C17", "destroyed-log-differs", "{}: destroyed events {:?}, expected {:?}", ARCH_NAMES[a], d, md);
                self.c.events_compared += 1;
            }
            let world = self.worlds[w].as_ref().unwrap();
            let (mut wc, mut wd) = guard("C17", "World::iter_created/iter_destroyed", || Ok(world_events(world)))?;
            wc.sort();
            wd.sort();
            all_c.sort();
            all_d.sort();
            ensure!(wc == all_c, "C17", "world-created-not-union", "world-level created events {:?}, union of archetypes {:?}", wc, all_c);
            ensure!(wd == all_d, "C17", "world-destroyed-not-union", "world-level destroyed events {:?}, union of archetypes {:?}", wd, all_d);
            if let Some((which, pos, hint, rem)) = guard("C17", "event iterator size_hint", || Ok(world_event_size_hints(world)))? {
                return vio!("C17", "size-hint-inexact", "world-level {} iterator: size_hint after {} items is {:?}, {} remain", which, pos, hint, rem);
            }
            if let Some(m) = guard("C17", "event iterators (derived methods)", || Ok(world_events_derived(world)))? {
                return vio!("C17", "derived-iterator-method-disagrees", "{}", m);
            }
            for a in self.sc.archs.clone() {
                if let Some(m) = guard("C17", "event iterators (derived methods)", || Ok(with_arch!(a as usize, A => <A as Arch>::events_derived(world))))? {
                    return vio!("C17", "derived-iterator-method-disagrees", "{}", m);
                }
            }
        }
        let _ = w;
        Ok(())
    }

    // -----------------------------------------------------------------------------------------
    // C01: every handle ever issued, through every lookup path
    // -----------------------------------------------------------------------------------------

    fn probe_c01(&mut self, w: usize) -> R {
        let handles: Vec<(Bits, Option<MEnt>)> = {
            let m = &self.models[w];
            m.live.iter().map(|(b, e)| (*b, Some(e.clone()))).chain(m.dead.iter().map(|b| (*b, None))).collect()
        };
        for (bits, ent) in handles {
            let a = match arch_of_id((bits.0 & 0xff) as u8) {
                Some(a) => a,
                None => return vio!("C01,C14", "issued-handle-unknown-archetype", "issued handle {:?} carries an undeclared archetype id", bits),
            };
            with_arch!(a, A => self.probe_handle::<A>(w, bits, ent))?;
        }
        Ok(())
    }

    fn probe_handle<A: Arch>(&mut self, w: usize, bits: Bits, ent: Option<MEnt>) -> R {
        let any = match EntityAny::from_raw(bits) {
            Ok(x) => x,
            Err(_) => return vio!("C01,C14", "from-raw-rejects-issued", "from_raw rejects the bits {:?} of an issued handle", bits),
        };
        let live = ent.is_some();
        if !live {
            self.c.stale_probes += 1;
        }
        let typed_e = typed::<A>(any);
        let d_before = if live { None } else { Some(self.dumps(w)) };
        let world = self.worlds[w].as_mut().unwrap();
        let mut res: Vec<LookRes> = Vec::new();
        guard("C01", "lookup of an issued handle", || {
            for key in [Hk::<A>::E(typed_e), Hk::<A>::Any(any)] {
                res.extend(lookups::<A>(world, key, false));
            }
            Ok(())
        })?;
        let mut direct: Option<EntityDirectAny> = None;
        for r in &res {
            if let Some(e) = &ent {
                ensure!(r.look.accepted(), "C01", format!("live-handle-rejected:{}", r.class), "live handle {:?} (uid {}) is rejected by {}", any, e.uid, r.path);
                if let Look::Reached(u) = &r.look {
                    ensure!(*u == Some(e.uid), "C01", "handle-designates-other-entity", "handle {:?} of uid {} reaches uid {:?} through {}", any, e.uid, u, r.path);
                }
                if let Some(rb) = r.bits {
                    ensure!(rb == bits, "C01", "handle-designates-other-entity", "lookup of {:?} through {} reports handle {:?}", any, r.path, rb);
                }
                if direct.is_none() {
                    direct = r.direct;
                }
            } else {
                ensure!(!r.look.accepted(), "C01", format!("stale-handle-accepted:{}", r.class), "stale handle {:?} is accepted by {} ({:?})", any, r.path, r.look);
            }
        }
        if let (Some(e), Some(d)) = (&ent, direct) {
            let world = self.worlds[w].as_mut().unwrap();
            let r = guard("C01", "lookup via to_direct result", || Ok(A::read(world, Hk::DAny(d), RP_RESOLVE_GET_SLICE)))?;
            ensure!(r.as_ref().and_then(|r| r.uid()) == Some(e.uid), "C01", "to-direct-designates-other-entity", "to_direct({:?}) = {:?} does not lead back to uid {}", any, d, e.uid);
        }
        if !live {
            self.c.stale_rejected += 1;
            // destroy of a stale handle: refused, and nothing changes
            let world = self.worlds[w].as_mut().unwrap();
            let r = guard("C01", "destroy of a stale handle", || {
                Ok(destroy_all_levels::<A>(world, Hk::E(typed_e), false).0 | destroy_all_levels::<A>(world, Hk::Any(any), false).0)
            })?;
            ensure!(!r, "C01", "stale-handle-accepted:destroy", "destroy of stale handle {:?} destroyed something", any);
            ensure!(d_before.unwrap() == self.dumps(w), "C01", "stale-destroy-mutated-world", "destroy of stale handle {:?} changed the world", any);
        }
        Ok(())
    }

    // -----------------------------------------------------------------------------------------
    // Shared: compare a list of rows with the model's live entities of a set of archetypes.
    // -----------------------------------------------------------------------------------------

    fn check_rows(&self, w: usize, rows: &[Row], archs: &[usize], what: &str, prop: &str, allow_prefix: bool) -> R {
        let m = &self.models[w];
        let mut expected: BTreeSet<Bits> = BTreeSet::new();
        for a in archs {
            expected.extend(m.order[*a].iter().cloned());
        }
        let mut seen = BTreeSet::new();
        for row in rows {
            let bits = match row.bits {
                Some(b) => b,
                None => return vio!(prop, "iteration-column-length-mismatch", "{}: a component slice has {:?} items, the entity slice a different number", what, row.index),
            };
            let ent = match m.live.get(&bits) {
                Some(e) => e,
                None => return vio!(prop, "iteration-yields-non-live", "{} yields handle {:?} which is not a live entity", what, bits),
            };
            ensure!(expected.contains(&bits), prop, "iteration-yields-unmatched", "{} yields {:?} of an archetype the query does not match", what, bits);
            ensure!(seen.insert(bits), prop, "iteration-yields-twice", "{} yields uid {} twice", what, ent.uid);
            let exp = with_arch!(ent.arch as usize, A => <A as Arch>::expect(ent.uid, &ent.vals));
            let ok = row_matches(ent.arch as usize, row, &exp);
            ensure!(ok, prop, "iteration-wrong-pairing", "{} pairs handle {:?} (uid {}) with data {:x?}, expected {:x?}", what, bits, ent.uid, row.dig, exp);
        }
        if !allow_prefix {
            ensure!(seen.len() == expected.len(), prop, "iteration-misses-entities", "{} yields {} entities, {} are alive and matched", what, seen.len(), expected.len());
        }
        Ok(())
    }

    // -----------------------------------------------------------------------------------------
    // C06: iteration
    // -----------------------------------------------------------------------------------------

    fn probe_c06(&mut self, w: usize) -> R {
        for a in 0..NARCH {
            // inactive archetypes stay empty: one path is enough to see that nothing is yielded
            let active = self.sc.archs.contains(&(a as u8));
            for path in 0..N_ITER_PATHS {
                if !active && path != IP_ITER && path != IP_ARCH_ITER {
                    continue;
                }
                let world = self.worlds[w].as_mut().unwrap();
                let rows = guard("C06", ITER_PATH_NAMES[path as usize], || Ok(with_arch!(a, A => <A as Arch>::iterate(world, path))))?;
                let what = format!("{} over {}", ITER_PATH_NAMES[path as usize], ARCH_NAMES[a]);
                self.check_rows(w, &rows, &[a], &what, "C06", false)?;
                let (len, _, _) = with_arch!(a, A => <A as Arch>::len_cap(self.world(w)));
                ensure!(rows.len() == len, "C06", "iteration-count-differs-from-len", "{} yields {} items, len() is {}", what, rows.len(), len);
            }
        }
        // The iterators of Archetype::iter()/iter_mut() through every provided Iterator method an implementation may
        // override: each must agree with the plain next() sequence of the same iterator (checked above against the model).
        for a in self.sc.archs.clone() {
            let a = a as usize;
            for mutable in [false, true] {
                let world = self.worlds[w].as_mut().unwrap();
                let plain = guard("C06", "Archetype::iter", || Ok(with_arch!(a, A => <A as Arch>::iterate(world, if mutable { IP_ARCH_ITER_MUT } else { IP_ARCH_ITER }))))?;
                for k in 0..=plain.len() {
                    let world = self.worlds[w].as_mut().unwrap();
                    let d = guard("C06", "Archetype::iter (derived methods)", || Ok(with_arch!(a, A => <A as Arch>::iter_derived(world, mutable, k))))?;
                    let nm = if mutable { "iter_mut()" } else { "iter()" };
                    ensure!(d.n == plain.len(), "C06", "iteration-count-differs-from-len", "{}.{} of {}: map(..).count() = {}, a plain pass yields {}", ARCH_NAMES[a], nm, ARCH_NAMES[a], d.n, plain.len());
                    for (label, got, exp) in &d.seqs {
                        let same = got.len() == exp.len() && got.iter().zip(exp.iter()).all(|(g, i)| plain.get(*i).map(|p| p.bits == g.bits && p.dig == g.dig).unwrap_or(false));
                        ensure!(same, "C06,C02", "derived-iterator-method-disagrees", "{}.{}.{} with k = {}: yields {:?}, the plain pass yields {:?} at positions {:?}", ARCH_NAMES[a], nm, label, k,
                            got.iter().map(|r| (r.bits, r.uid())).collect::<Vec<_>>(), exp.iter().map(|i| plain.get(*i).map(|r| (r.bits, r.uid()))).collect::<Vec<_>>(), exp);
                        self.c.derived_iter_checks += 1;
                    }
                    for (label, got) in &d.counts {
                        ensure!(*got == plain.len(), "C06", "derived-iterator-method-disagrees", "{}.{}.{} with k = {}: {} items, the plain pass yields {}", ARCH_NAMES[a], nm, label, k, got, plain.len());
                    }
                    ensure!(d.hints.len() == plain.len() + 1, "C06", "derived-iterator-method-disagrees", "{}.{}: {} calls of next() before None, the plain pass yields {}", ARCH_NAMES[a], nm, d.hints.len(), plain.len());
                    for (j, (lo, hi)) in d.hints.iter().enumerate() {
                        let rem = plain.len() - j;
                        ensure!(*lo <= rem && hi.map(|h| rem <= h).unwrap_or(true), "C06", "size-hint-wrong", "{}.{}: size_hint() after {} items is ({}, {:?}) but {} items remain", ARCH_NAMES[a], nm, j, lo, hi, rem);
                    }
                }
            }
        }
        for qf in 0..N_QFORMS_ITER {
            let archs: Vec<usize> = (0..NARCH).filter(|a| qform_matches(qf, *a)).collect();
            let n: usize = archs.iter().map(|a| self.models[w].order[*a].len()).sum();
            for borrow in [false, true] {
                let what = format!("{} {}", if borrow { "ecs_iter_borrow!" } else { "ecs_iter!" }, QFORM_ITER_NAMES[qf as usize]);
                let world = self.worlds[w].as_mut().unwrap();
                let rows = guard("C06", &what, || Ok(wq_iter(world, qf, borrow, None)))?;
                self.check_rows(w, &rows, &archs, &what, "C06", false)?;
                // Break at every position: the closure must run exactly min(k, n) times in total.
                for k in 1..=n + 1 {
                    let world = self.worlds[w].as_mut().unwrap();
                    let rows = guard("C06", &what, || Ok(wq_iter(world, qf, borrow, Some(k))))?;
                    ensure!(rows.len() == k.min(n), "C06", "break-does-not-end-query", "{}: closure returned Break at invocation {} of {} but ran {} times", what, k, n, rows.len());
                    self.check_rows(w, &rows, &archs, &what, "C06", true)?;
                }
            }
        }
        Ok(())
    }

    // -----------------------------------------------------------------------------------------
    // C02: all read paths x key kinds; all write paths
    // -----------------------------------------------------------------------------------------

    fn probe_c02(&mut self, w: usize) -> R {
        let d0 = self.dumps(w);
        let ents: Vec<MEnt> = self.models[w].live.values().cloned().collect();
        for ent in &ents {
            with_arch!(ent.arch as usize, A => self.read_all::<A>(w, ent.any, &[0, 1, 2, 3]))?;
        }
        // every write path on every entity; after each write: the written entity through every read
        // path, every other entity through one (rotating) whole-archetype path.
        for ent in &ents {
            for wp in 0..N_WRITE_PATHS {
                let kind = ((ent.uid + wp as u32) % 4) as u8;
                let nv = self.fresh_vals(ARITIES[ent.arch as usize]);
                let ok = with_arch!(ent.arch as usize, A => {
                    let key = self.key_for::<A>(w, ent.any, kind, Via::World)?;
                    let world = self.worlds[w].as_mut().unwrap();
                    guard("C02", WRITE_PATH_NAMES[wp as usize], || Ok(<A as Arch>::write(world, key, wp, ent.uid, &nv)))?
                });
                self.c.writes += 1;
                ensure!(ok, "C02,C01", "live-handle-rejected:write", "{} rejected live uid {}", WRITE_PATH_NAMES[wp as usize], ent.uid);
                self.models[w].live.get_mut(&ent.any.raw()).unwrap().vals = nv;
                with_arch!(ent.arch as usize, A => self.read_all::<A>(w, ent.any, &[(wp % 4)]))?;
                for a in 0..NARCH {
                    if self.models[w].order[a].is_empty() {
                        continue;
                    }
                    let ip = (wp + a as u8) % N_ITER_PATHS;
                    let world = self.worlds[w].as_mut().unwrap();
                    let rows = guard("C02", ITER_PATH_NAMES[ip as usize], || Ok(with_arch!(a, A => <A as Arch>::iterate(world, ip))))?;
                    let what = format!("{} over {} after a write through {}", ITER_PATH_NAMES[ip as usize], ARCH_NAMES[a], WRITE_PATH_NAMES[wp as usize]);
                    self.check_rows(w, &rows, &[a], &what, "C02", false)?;
                }
            }
        }
        ensure!(d0 == self.dumps(w), "C02", "component-write-changed-structure", "component writes changed the structural representation");
        Ok(())
    }

    /// Reads one live entity through every read path with the given key kinds.
    fn read_all<A: Arch>(&mut self, w: usize, any: EntityAny, kinds: &[u8]) -> R {
        let bits = any.raw();
        let ent = self.models[w].live[&bits].clone();
        let exp = A::expect(ent.uid, &ent.vals);
        for &kind in kinds {
            let key = self.key_for::<A>(w, any, kind, Via::Arch)?;
            for path in 0..N_READ_PATHS {
                if !read_path_applicable(path, kind) {
                    continue;
                }
                let world = self.worlds[w].as_mut().unwrap();
                let row = guard("C02", READ_PATH_NAMES[path as usize], || Ok(A::read(world, key, path)))?;
                self.c.reads += 1;
                let what = format!("{} with {}", READ_PATH_NAMES[path as usize], KEY_KINDS[kind as usize]);
                let row = match row {
                    Some(r) => r,
                    None => return vio!("C02,C01", "live-handle-rejected:read", "{} rejected live uid {}", what, ent.uid),
                };
                let ok = row_matches(A::IDX, &row, &exp);
                ensure!(ok, "C02", "read-wrong-values", "{} returned {:x?} for uid {}, expected {:x?}", what, row.dig, ent.uid, exp);
                if let Some(rb) = row.bits {
                    ensure!(rb == bits, "C02", "read-wrong-handle", "{} reported handle {:?} for a lookup of {:?}", what, rb, bits);
                }
            }
        }
        Ok(())
    }

    // -----------------------------------------------------------------------------------------
    // C09: direct handles at mint + the per-state (index, version) universe
    // -----------------------------------------------------------------------------------------

    fn probe_c09(&mut self, w: usize) -> R {
        // Direct handles handed out by whole-query iteration, collected once per state.
        let mut from_queries: BTreeMap<Bits, Vec<(String, EntityDirectAny)>> = BTreeMap::new();
        for qf in 0..N_QFORMS {
            for borrow in [false, true] {
                let world = self.worlds[w].as_mut().unwrap();
                let rows = guard("C09", "ecs_iter!/ecs_iter_borrow!", || Ok(wq_iter(world, qf, borrow, None)))?;
                for r in rows {
                    if let (Some(b), Some(d)) = (r.bits, r.direct) {
                        from_queries.entry(b).or_default().push((format!("{} {}", if borrow { "ecs_iter_borrow!" } else { "ecs_iter!" }, QFORM_NAMES[qf as usize]), d));
                    }
                }
            }
        }
        for a in 0..NARCH {
            if self.models[w].order[a].is_empty() && !self.sc.archs.contains(&(a as u8)) {
                continue;
            }
            with_arch!(a, A => self.probe_c09_arch::<A>(w, &mut from_queries))?;
        }
        Ok(())
    }

    fn probe_c09_arch<A: Arch>(&mut self, w: usize, from_queries: &mut BTreeMap<Bits, Vec<(String, EntityDirectAny)>>) -> R {
        let a = A::IDX;
        for ip in [IP_ITER, IP_ITER_BORROW] {
            let world = self.worlds[w].as_mut().unwrap();
            let rows = guard("C09", ITER_PATH_NAMES[ip as usize], || Ok(A::iterate(world, ip)))?;
            for r in rows {
                if let (Some(b), Some(d)) = (r.bits, r.direct) {
                    from_queries.entry(b).or_default().push((format!("{} (typed)", ITER_PATH_NAMES[ip as usize]), d));
                }
            }
        }
        let mut minted: BTreeMap<Bits, EntityDirectAny> = BTreeMap::new();
        for bits in self.models[w].order[a].clone() {
            let ent = self.models[w].live[&bits].clone();
            let e = typed::<A>(ent.any);
            let world = self.worlds[w].as_mut().unwrap();
            // ---- all minting routes give the same handle ----
            let mut routes: Vec<(String, Option<EntityDirectAny>)> = Vec::new();
            guard("C09", "minting a direct handle", || {
                for key in [Hk::<A>::E(e), Hk::<A>::Any(ent.any)] {
                    for via in [Via::World, Via::Arch] {
                        routes.push((format!("to_direct/{:?}/{}", via, KEY_KINDS[key.kind() as usize]), A::x_to_direct(world, key, via)));
                    }
                }
                Ok(())
            })?;
            let d0 = match routes[0].1 {
                Some(d) => d,
                None => return vio!("C09,C01", "live-handle-rejected:to_direct", "to_direct rejected live uid {}", ent.uid),
            };
            let td0 = match EntityDirect::<A>::try_from(d0) {
                Ok(t) => t,
                Err(_) => return vio!("C09,C14", "direct-handle-wrong-archetype-id", "to_direct of an entity of {} returned {:?}", A::NAME, d0),
            };
            guard("C09", "minting a direct handle", || {
                for key in [Hk::<A>::D(td0), Hk::<A>::DAny(d0)] {
                    for via in [Via::World, Via::Arch] {
                        routes.push((format!("to_direct/{:?}/{}", via, KEY_KINDS[key.kind() as usize]), A::x_to_direct(world, key, via)));
                    }
                }
                for key in [Hk::<A>::E(e), Hk::<A>::Any(ent.any), Hk::<A>::D(td0), Hk::<A>::DAny(d0)] {
                    for path in [RP_FIND, RP_FIND_BORROW, RP_FIND_WILD, RP_FIND_ANYP, RP_FIND_BORROW_WILD, RP_FIND_BORROW_ANYP] {
                        let r = A::read(world, key, path);
                        routes.push((format!("{}/{}", READ_PATH_NAMES[path as usize], KEY_KINDS[key.kind() as usize]), r.and_then(|r| r.direct)));
                    }
                }
                Ok(())
            })?;
            if let Some(v) = from_queries.get(&bits) {
                for (route, d) in v {
                    routes.push((route.clone(), Some(*d)));
                }
            }
            for (route, d) in &routes {
                ensure!(*d == Some(d0), "C09", "mint-routes-disagree", "direct handle for uid {} from {} is {:?}, to_direct gave {:?}", ent.uid, route, d, d0);
            }
            // ---- accepted at the moment of issue, designating this entity, through every path ----
            let mut res: Vec<LookRes> = Vec::new();
            guard("C09", "lookup of a fresh direct handle", || {
                for key in [Hk::<A>::D(td0), Hk::<A>::DAny(d0)] {
                    res.extend(lookups::<A>(world, key, false));
                }
                Ok(())
            })?;
            self.c.direct_probes += 1;
            for r in res {
                match r.look {
                    Look::Rejected | Look::Panicked(_) => return vio!("C09", format!("fresh-direct-rejected:{}", r.class), "direct handle {:?} just issued for uid {} is rejected by {}", d0, ent.uid, r.path),
                    Look::Reached(u) => ensure!(u == Some(ent.uid), "C09", "direct-designates-other", "direct handle {:?} issued for uid {} reaches uid {:?} through {}", d0, ent.uid, u, r.path),
                    Look::Accepted => {}
                }
                if r.class == "to_direct" {
                    ensure!(r.direct == Some(d0), "C09", "mint-routes-disagree", "to_direct({:?}) returned {:?}", d0, r.direct);
                }
            }
            ensure!(minted.insert(bits, d0).is_none(), "C09", "harness", "duplicate entity in model order");
        }
        // distinct entities have distinct direct handles
        let mut vals: Vec<EntityDirectAny> = Vec::new();
        for d in minted.values() {
            ensure!(!vals.contains(d), "C09", "direct-handle-shared", "two live entities of {} share the direct handle {:?}", A::NAME, d);
            vals.push(*d);
        }

        self.probe_direct_universe::<A>(w)
    }

    /// The universe {0..len+1, 2^24-1} x {versions around the current one, 1, 2, MAX-1, MAX} of direct handle
    /// values, as EntityDirect<A> and EntityDirectAny, through every lookup path and destroy.
    /// Older versions are C09's (any of them may be a genuinely issued, now stale handle); future versions and
    /// out-of-range indices are C03's (forged).
    pub fn probe_direct_universe<A: Arch>(&mut self, w: usize) -> R {
        let a = A::IDX;
        let mut minted: BTreeMap<Bits, EntityDirectAny> = BTreeMap::new();
        for bits in self.models[w].order[a].clone() {
            let any = self.models[w].live[&bits].any;
            let world = self.worlds[w].as_mut().unwrap();
            match guard("C09", "to_direct", || Ok(A::x_to_direct(world, Hk::E(typed::<A>(any)), Via::Arch)))? {
                Some(d) => {
                    minted.insert(bits, d);
                }
                None => return vio!("C09,C01", "live-handle-rejected:to_direct", "to_direct rejected live handle {:?}", any),
            }
        }
        let vals: Vec<EntityDirectAny> = minted.values().cloned().collect();
        let dump = self.dump_of(w, a);
        let cur = dump.version;
        let mut versions: BTreeSet<u32> = [1u32, 2, u32::MAX, u32::MAX - 1].into_iter().collect();
        for dv in [-3i64, -2, -1, 0, 1, 2] {
            let v = cur as i64 + dv;
            if v >= 1 && v <= u32::MAX as i64 {
                versions.insert(v as u32);
            }
        }
        let mut idxs: Vec<usize> = (0..=dump.len + 1).collect();
        idxs.push(MAX_POS as usize);
        let d_before = self.dumps(w);
        for v in versions {
            let ver = version_value(v);
            for &idx in &idxs {
                let forged = A::forge_direct(idx, ver);
                let fany: EntityDirectAny = forged.into();
                let owner: Option<u32> = minted.iter().find(|(_, d)| **d == fany).map(|(b, _)| self.models[w].live[b].uid);
                self.c.direct_probes += 1;
                let world = self.worlds[w].as_mut().unwrap();
                let mut res = lookups_opt::<A>(world, Hk::D(forged), true, true);
                res.extend(lookups_opt::<A>(world, Hk::DAny(fany), true, true));
                // a value some history could have been handed for this archetype: any index at an older
                // version, or an index below len at the current version
                let could_be_issued = v < cur || (v == cur && idx < dump.len);
                for r in res {
                    match &r.look {
                        Look::Panicked(msg) => {
                            if could_be_issued && self.sc.want("C09") {
                                return vio!("C09", format!("direct-lookup-panicked:{}", r.class), "lookup of direct handle {:?} through {} panicked: {}", fany, r.path, msg);
                            }
                            self.c.forged_clean_panics += 1;
                        }
                        Look::Rejected => {
                            ensure!(owner.is_none(), "C09", format!("fresh-direct-rejected:{}", r.class), "direct handle {:?} equals the handle of live uid {:?} but is rejected by {}", fany, owner, r.path);
                        }
                        Look::Accepted | Look::Reached(_) => {
                            if owner.is_none() {
                                let (prop, sig) = if v < cur {
                                    ("C09", format!("direct-survived-removal:{}", r.class))
                                } else {
                                    ("C03", format!("forged-direct-accepted:{}", r.class))
                                };
                                if !self.sc.want(prop) {
                                    continue;
                                }
                                if self.is_known(prop, &sig) {
                                    self.note_known(prop, &sig);
                                    continue;
                                }
                                return vio!(prop, sig, "direct handle {:?} (index {}, version {}) is accepted by {} although the archetype is at version {} with len {}", fany, idx, v, r.path, cur, dump.len);
                            }
                            if let Look::Reached(u) = &r.look {
                                ensure!(*u == owner, "C09", "direct-designates-other", "direct handle {:?} belongs to uid {:?} but reaches uid {:?} through {}", fany, owner, u, r.path);
                            }
                        }
                    }
                }
                if owner.is_none() {
                    let world = self.worlds[w].as_mut().unwrap();
                    let (destroyed, _) = destroy_all_levels::<A>(world, Hk::D(forged), true);
                    let (destroyed2, _) = destroy_all_levels::<A>(world, Hk::DAny(fany), true);
                    if destroyed || destroyed2 {
                        // an entity is gone: the state is ruined whichever property is being decided
                        return vio!(if v < cur { "C09" } else { "C03" }, "stale-or-forged-direct-destroyed-something", "destroy with direct handle {:?} destroyed an entity (archetype at version {}, len {})", fany, cur, dump.len);
                    }
                    self.c.forged_probes += 1;
                }
            }
        }
        ensure!(d_before == self.dumps(w), "C09", "direct-lookup-mutated-world", "presenting direct handles to {} changed the world", A::NAME);
        Ok(())
    }

    /// Dynamic direct handles of ANOTHER active archetype (its archetype byte, indices around both lengths, the versions
    /// of both archetypes) presented to archetype A's archetype-level API: never accepted, never destroys anything.
    pub fn probe_foreign_direct<A: Arch>(&mut self, w: usize) -> R {
        let a = A::IDX;
        let da = self.dump_of(w, a);
        let d_before = self.dumps(w);
        for b in self.sc.archs.clone() {
            let b = b as usize;
            if b == a {
                continue;
            }
            let db = self.dump_of(w, b);
            let versions: BTreeSet<u32> = [da.version, db.version, 1u32].into_iter().collect();
            let top = da.len.max(db.len) + 1;
            for v in versions {
                for idx in 0..=top {
                    let fany: EntityDirectAny = with_arch!(b, B => <B as Arch>::forge_direct(idx, version_value(v)).into());
                    self.c.forged_probes += 1;
                    let world = self.worlds[w].as_mut().unwrap();
                    for r in lookups_opt::<A>(world, Hk::DAny(fany), true, true) {
                        if r.world_level {
                            continue; // dispatches on the archetype byte, i.e. to the other archetype, where the value may be legitimate
                        }
                        if matches!(r.look, Look::Accepted | Look::Reached(_)) {
                            return vio!("C03", format!("foreign-archetype-direct-accepted:{}", r.class), "dynamic direct handle {:?} of {} (index {}, version {}) is accepted by {} of {} (version {}, len {})", fany, ARCH_NAMES[b], idx, v, r.path, A::NAME, da.version, da.len);
                        }
                    }
                    let world = self.worlds[w].as_mut().unwrap();
                    let gone = catch_unwind(AssertUnwindSafe(|| A::x_destroy(world, Hk::DAny(fany), Via::Arch))).map(|r| r.is_some()).unwrap_or(false);
                    ensure!(!gone, "C03", "foreign-archetype-direct-destroyed-something", "{}::destroy({:?}) (a handle of {}) destroyed an entity", A::NAME, fany, ARCH_NAMES[b]);
                }
            }
        }
        ensure!(d_before == self.dumps(w), "C03", "foreign-direct-lookup-mutated-world", "presenting direct handles of other archetypes to {} changed the world", A::NAME);
        Ok(())
    }

    // -----------------------------------------------------------------------------------------
    // C14 on issued handles (the key-space sweeps are engine kx)
    // -----------------------------------------------------------------------------------------

    fn probe_c14(&mut self, w: usize) -> R {
        use std::collections::HashSet;
        let m = &self.models[w];
        let mut set: HashSet<EntityAny> = HashSet::new();
        let all: Vec<Bits> = m.live.keys().cloned().chain(m.dead.iter().cloned()).collect();
        for bits in &all {
            let any = match EntityAny::from_raw(*bits) {
                Ok(a) => a,
                Err(_) => return vio!("C14", "from-raw-rejects-issued", "from_raw rejects {:?}", bits),
            };
            ensure!(any.raw() == *bits, "C14", "raw-roundtrip", "from_raw({:?}).raw() = {:?}", bits, any.raw());
            set.insert(any);
            let a = arch_of_id(any.archetype_id());
            ensure!(a.is_some(), "C14", "issued-handle-unknown-archetype", "issued handle {:?} has undeclared archetype id", any);
            let sel = SelectArchetype::try_from(any);
            ensure!(sel.map(|s| s.archetype_id()).ok() == Some(any.archetype_id()), "C14", "select-archetype", "SelectArchetype::try_from({:?}) disagrees with archetype_id()", any);
            for a2 in self.sc.archs.clone() {
                let ok = with_arch!(a2 as usize, A => Entity::<A>::try_from(any).map(|e| e.into_any() == any && e.archetype_id() == any.archetype_id()));
                let same = Some(a2 as usize) == a;
                ensure!(ok == if same { Ok(true) } else { Err(gecs::error::EcsError::InvalidEntityType) }, "C14", "typed-conversion", "Entity::<{}>::try_from({:?}) gave {:?}", ARCH_NAMES[a2 as usize], any, ok);
            }
        }
        ensure!(set.len() == all.len(), "C14", "hashset-cardinality", "{} issued handles collapse to {} in a HashSet", all.len(), set.len());
        // direct handles of all live entities of this world (all archetypes): distinct entities, unequal handles
        let mut directs: Vec<(Bits, EntityDirectAny)> = Vec::new();
        for (bits, ent) in self.models[w].live.clone() {
            let world = self.worlds[w].as_ref().unwrap();
            let a = ent.arch as usize;
            if let Some(d) = guard("C14", "to_direct", || Ok(with_arch!(a, A => <A as Arch>::x_to_direct(world, Hk::E(typed::<A>(ent.any)), Via::Arch))))? {
                ensure!(d.archetype_id() == ent.any.archetype_id(), "C14", "direct-handle-wrong-archetype-id", "to_direct({:?}) = {:?}", ent.any, d);
                directs.push((bits, d));
            }
        }
        let dset: HashSet<EntityDirectAny> = directs.iter().map(|x| x.1).collect();
        ensure!(dset.len() == directs.len(), "C14", "hashset-cardinality:direct", "direct handles of {} live entities collapse to {} in a HashSet", directs.len(), dset.len());
        for i in 0..directs.len() {
            for j in 0..i {
                ensure!(directs[i].1 != directs[j].1, "C14", "distinct-entities-compare-equal:direct", "direct handles {:?} (of {:?}) and {:?} (of {:?}) compare equal", directs[i].1, directs[i].0, directs[j].1, directs[j].0);
            }
        }
        Ok(())
    }

    // -----------------------------------------------------------------------------------------
    // C03: forged and foreign indirect handles in this state
    // -----------------------------------------------------------------------------------------

    fn probe_c03(&mut self, w: usize) -> R {
        // archetype bytes: every active archetype, one declared but unused one, two undeclared ones
        let mut bytes: Vec<u8> = self.sc.archs.iter().map(|a| arch_id(*a as usize)).collect();
        if let Some(a) = (0..NARCH).find(|a| !self.sc.archs.contains(&(*a as u8))) {
            bytes.push(arch_id(a));
        }
        bytes.push(100);
        bytes.push(255);
        let targets: Vec<u8> = self.sc.archs.clone();
        for &t in &targets {
            let d = self.dump_of(w, t as usize);
            let mut gens: BTreeSet<u32> = [1u32, 2, u32::MAX].into_iter().collect();
            for (_, g) in &d.slots {
                for dg in [-1i64, 0, 1] {
                    let v = *g as i64 + dg;
                    if v >= 1 && v <= u32::MAX as i64 {
                        gens.insert(v as u32);
                    }
                }
            }
            let mut poss: Vec<u32> = (0..=d.capacity as u32 + 1).collect();
            poss.push(MAX_POS);
            let declared: Vec<u8> = (0..NARCH).map(arch_id).collect();
            let gen0 = d.slots.first().map(|s| s.1).unwrap_or(1);
            for &pos in &poss {
                for &g in &gens {
                    for &byte in &bytes {
                        // An undeclared archetype byte only ever reaches the default arm of the id dispatch, before
                        // position or generation are looked at: two positions x two generations represent the class.
                        if !declared.contains(&byte) && !((pos == 0 || pos == d.capacity as u32) && (g == 1 || g == gen0)) {
                            continue;
                        }
                        let bits = ((pos << 8) | byte as u32, g);
                        with_arch!(t as usize, A => self.probe_forged::<A>(w, bits))?;
                    }
                }
            }
        }
        if !self.sc.want("C09") {
            for &t in &targets {
                with_arch!(t as usize, A => self.probe_direct_universe::<A>(w))?;
            }
        }
        for &t in &targets {
            with_arch!(t as usize, A => self.probe_foreign_direct::<A>(w))?;
        }
        // handles of the other worlds of this state (clone / original): foreign handles
        for w2 in 0..self.worlds.len() {
            if w2 == w {
                continue;
            }
            let foreign: Vec<Bits> = self.models[w2].live.keys().cloned().chain(self.models[w2].dead.iter().cloned()).collect();
            for bits in foreign {
                if let Some(a) = arch_of_id((bits.0 & 0xff) as u8) {
                    with_arch!(a, A => self.probe_forged::<A>(w, bits))?;
                }
            }
        }
        Ok(())
    }

    /// Present arbitrary bits to world w through the APIs of archetype A (typed, unchecked, dynamic).
    fn probe_forged<A: Arch>(&mut self, w: usize, bits: Bits) -> R {
        self.c.forged_probes += 1;
        let any = EntityAny::from_raw(bits).expect("nonzero generation");
        let identical: Option<MEnt> = self.models[w].live.get(&bits).cloned();
        let byte_matches = any.archetype_id() == A::ARCHETYPE_ID;
        // (label, key, is the *typed* key's own byte wrong?)
        let mut keys: Vec<(&'static str, Hk<A>, bool)> = vec![("EntityAny", Hk::Any(any), false)];
        if let Ok(e) = Entity::<A>::try_from(any) {
            keys.push(("try_from", Hk::E(e), false));
        }
        ensure!(Entity::<A>::try_from(any).is_ok() == byte_matches, "C14,C03", "typed-conversion", "Entity::<{}>::try_from({:?}) is_ok = {}", A::NAME, any, !byte_matches);
        match catch_unwind(|| Entity::<A>::from_any(any)) {
            Ok(e) => {
                ensure!(byte_matches, "C14,C03", "from-any-accepts-mismatch", "Entity::<{}>::from_any({:?}) did not panic", A::NAME, any);
                keys.push(("from_any", Hk::E(e), false));
            }
            Err(_) => ensure!(!byte_matches, "C14,C03", "from-any-panics-on-match", "Entity::<{}>::from_any({:?}) panicked", A::NAME, any),
        }
        if let Ok(e) = catch_unwind(|| Entity::<A>::from_any_unchecked(any)) {
            keys.push(("from_any_unchecked", Hk::E(e), !byte_matches));
        }
        // the safe &mut conversion lets any bits into a typed handle in every build
        let seed = A::forge_seed();
        keys.push(("mut-ref-assign", Hk::E(typed_via_mut_ref::<A>(seed, any)), !byte_matches));

        let d0 = self.dumps(w);
        for (label, key, wrong_byte) in keys {
            let world = self.worlds[w].as_mut().unwrap();
            let res = lookups_opt::<A>(world, key, true, true);
            for r in res {
                // Is acceptance by this path legitimate? Only if the value IS a live handle of this world,
                // presented under its own type, and the path looks in that entity's archetype.
                let legit: Option<&MEnt> = match &identical {
                    Some(e) if !wrong_byte && (e.arch as usize == A::IDX || r.world_level) => Some(e),
                    // A wrongly typed handle converted back with into_any() IS the live handle again
                    // (the EntityAny forms of ecs_find! are fed that way by the harness).
                    Some(e) if wrong_byte && r.world_level && r.look == Look::Reached(Some(e.uid)) => Some(e),
                    _ => None,
                };
                match &r.look {
                    Look::Panicked(msg) => {
                        ensure!(legit.is_none(), "C03,C01", "unexpected-panic:lookup", "lookup of live handle {:?} via {} through {} panicked: {}", any, label, r.path, msg);
                        self.c.forged_clean_panics += 1;
                    }
                    Look::Rejected => {
                        if let Some(e) = legit {
                            // world-level typed macros restricted to A legitimately skip entities of other archetypes
                            if e.arch as usize == A::IDX {
                                return vio!("C03,C01", "live-handle-rejected:forged-identical", "value {:?} ({}) is bit-identical to the live handle of uid {} but is rejected by {}", any, label, e.uid, r.path);
                            }
                        }
                    }
                    Look::Accepted | Look::Reached(_) => {
                        if let Some(e) = legit {
                            self.c.forged_accepted_identical += 1;
                            if let Look::Reached(u) = &r.look {
                                ensure!(*u == Some(e.uid), "C03", "forged-reaches-other-entity", "value {:?} ({}) is bit-identical to live uid {} but reaches uid {:?} through {}", any, label, e.uid, u, r.path);
                            }
                            if let Some(rb) = r.bits {
                                ensure!(rb == bits, "C03", "forged-reaches-other-entity", "value {:?} ({}) reaches handle {:?} through {}", any, label, rb, r.path);
                            }
                            continue;
                        }
                        if let Look::Reached(None) = &r.look {
                            return vio!("C03", "forged-read-garbage", "value {:?} ({}) read freed/uninitialised/corrupt component data through {}", any, label, r.path);
                        }
                        let sig = if wrong_byte { format!("typed-handle-wrong-archetype-byte:{}", label) } else { format!("forged-handle-accepted:{}", r.class) };
                        if wrong_byte && self.is_known("C03", &sig) {
                            // F6: documented "logic error"; must still be memory-safe, i.e. reach the LIVE entity of A
                            // that sits at this position with this generation, and nothing else.
                            if let Look::Reached(Some(uid)) = &r.look {
                                let ok = self.models[w].live.values().any(|e| e.uid == *uid && e.arch as usize == A::IDX && (e.any.raw().0 >> 8) == (bits.0 >> 8) && e.any.raw().1 == bits.1);
                                ensure!(ok, "C03", "forged-reaches-unrelated-entity", "typed handle {:?} ({}) with a foreign archetype byte reaches uid {} through {}, which is not the entity at that position and generation", any, label, uid, r.path);
                            } else {
                                let ok = self.models[w].live.values().any(|e| e.arch as usize == A::IDX && (e.any.raw().0 >> 8) == (bits.0 >> 8) && e.any.raw().1 == bits.1);
                                ensure!(ok, "C03", "forged-handle-accepted", "typed handle {:?} ({}) is accepted by {} although no live entity of {} has that position and generation", any, label, r.path, A::NAME);
                            }
                            self.note_known("C03", &sig);
                            continue;
                        }
                        return vio!("C03", sig, "value {:?} ({}) is not the handle of any live entity of this world but is accepted by {} ({:?})", any, label, r.path, r.look);
                    }
                }
            }
            // destroy with a value that is no live handle: refused (or clean panic), nothing changes.
            // For the known wrong-archetype-byte class (F6) a typed handle resolves on (position, generation)
            // alone, so destroy would remove A's entity sitting there: that call is not made (it is the same
            // finding as the lookups above, and it would ruin the state for everything that follows).
            let f6_target = wrong_byte
                && self.is_known("C03", &format!("typed-handle-wrong-archetype-byte:{}", label))
                && self.models[w].live.values().any(|e| e.arch as usize == A::IDX && (e.any.raw().0 >> 8) == (bits.0 >> 8) && e.any.raw().1 == bits.1);
            if identical.is_none() && !f6_target {
                let world = self.worlds[w].as_mut().unwrap();
                let (destroyed, panics) = destroy_all_levels::<A>(world, key, true);
                self.c.forged_clean_panics += panics as u64;
                if destroyed {
                    let sig = if wrong_byte { format!("typed-handle-wrong-archetype-byte:{}:destroy", label) } else { "forged-handle-accepted:destroy".to_string() };
                    return vio!("C03", sig, "destroy({:?} via {}) destroyed an entity although the value is not a live handle of this world", any, label);
                }
            }
        }
        ensure!(d0 == self.dumps(w), "C03", "forged-lookup-mutated-world", "presenting {:?} to the world changed its representation", any);
        Ok(())
    }

    // -----------------------------------------------------------------------------------------
    // Epilogue (destructive): refill to exactly capacity, destroy everything, drop, registry.
    // -----------------------------------------------------------------------------------------

    pub fn epilogue(&mut self) -> R {
        // Clone::clone_from between two worlds of the state (an implementation may override it to reuse allocations): the
        // target must end up as a copy of the source, its old values dropped exactly once (registry), nothing else touched.
        if (self.sc.want("C04") || self.sc.want("C13")) && self.sc.max_faults == 0 {
            let alive: Vec<usize> = (0..self.worlds.len()).filter(|w| self.world_alive(*w)).collect();
            if alive.len() >= 2 {
                let (dst, src) = if self.uid_next % 2 == 0 { (alive[0], alive[1]) } else { (alive[1], alive[0]) };
                let mut d = self.worlds[dst].take().unwrap();
                let r = {
                    let s = self.worlds[src].as_ref().unwrap();
                    catch_unwind(AssertUnwindSafe(|| d.clone_from(s)))
                };
                self.worlds[dst] = Some(d);
                if let Err(p) = r {
                    return vio!("C13,C04", "unexpected-panic:clone_from", "world.clone_from(&other) panicked: {}", panic_msg(&p));
                }
                self.models[dst] = self.models[src].clone();
                ensure!(self.dumps(dst) == self.dumps(src), "C13", "clone-from-representation-differs", "after a.clone_from(&b) the two worlds differ: {:?} vs {:?}", self.dumps(dst), self.dumps(src));
                self.check_registry("after clone_from")?;
                self.check_repr(dst)?;
            }
        }
        let refill = self.sc.want("C12") || self.sc.want("C13") || self.sc.want("C08") || self.sc.want("C04") || self.sc.want("C10");
        for w in 0..self.worlds.len() {
            if !self.world_alive(w) {
                continue;
            }
            if refill {
                for a in self.sc.archs.clone() {
                    with_arch!(a as usize, A => self.refill::<A>(w))?;
                }
                self.check_repr(w)?;
            }
            // destroy everything that can be destroyed (rotating key kinds / levels)
            for a in 0..NARCH {
                let mut j = 0u32;
                while let Some(&bits) = self.models[w].order[a].iter().find(|b| !(b.1 == u32::MAX && !cfg!(feature = "wrapping_version"))) {
                    if self.dump_of(w, a).version == u32::MAX && !cfg!(feature = "wrapping_version") {
                        break;
                    }
                    let i = self.models[w].order[a].iter().position(|b| *b == bits).unwrap();
                    let via = if j % 2 == 0 { Via::World } else { Via::Arch };
                    self.apply_inner_destroy(w, a, i, (j % 4) as u8, via)?;
                    j += 1;
                }
            }
            self.check_registry("after destroying everything")?;
        }
        // drop the worlds
        for w in 0..self.worlds.len() {
            if let Some(world) = self.worlds[w].take() {
                guard("C04", "dropping the world", || {
                    drop(world);
                    Ok(())
                })?;
            }
        }
        let snap = reg_snapshot();
        ensure!(snap.double_drops == 0, "C04", "double-drop", "{} component value(s) dropped twice by the end of the history", snap.double_drops);
        ensure!(snap.z_underflow == 0, "C04", "double-drop-zst", "zero-sized component dropped more often than created");
        let (lt, lz) = (self.leaked_tracked, self.leaked_z);
        ensure!(snap.live as i64 == lt, "C04", if (snap.live as i64) > lt { "leak" } else { "double-drop" }, "{} tracked component values are still alive after every world was dropped (known-leaked: {})", snap.live, lt);
        ensure!(snap.z_live == lz, "C04", if snap.z_live > lz { "leak-zst" } else { "double-drop-zst" }, "zero-sized Drop component balance is {} after every world was dropped (known-leaked: {})", snap.z_live, lz);
        Ok(())
    }

    fn apply_inner_destroy(&mut self, w: usize, a: usize, i: usize, kind: u8, via: Via) -> R {
        let op = Op::Destroy { w: w as u8, a: a as u8, i: i as u8, key: kind, via };
        self.apply(&op, false)
    }

    fn refill<A: Arch>(&mut self, w: usize) -> R {
        let a = A::IDX;
        let (len, cap, _) = A::len_cap(self.world(w));
        for n in len..cap {
            let before = self.models[w].order[a].len();
            self.apply(&Op::CreateWithin { w: w as u8, a: a as u8, via: if n % 2 == 0 { Via::World } else { Via::Arch } }, false)?;
            if self.models[w].order[a].len() != before + 1 {
                return vio!("C12", "refill-to-capacity-failed", "{}: create_within_capacity failed at len {} although capacity is {}", A::NAME, n, cap);
            }
            self.c.refills += 1;
            // the new handle resolves at once
            let bits = *self.models[w].order[a].last().unwrap();
            let any = self.models[w].live[&bits].any;
            let ok = A::x_contains(self.world(w), Hk::Any(any), Via::World);
            ensure!(ok, "C01", "live-handle-rejected:contains", "handle {:?} created while refilling is not contained", any);
        }
        let before = self.models[w].order[a].len();
        self.apply(&Op::CreateWithin { w: w as u8, a: a as u8, via: Via::Arch }, false)?;
        ensure!(self.models[w].order[a].len() == before, "C12", "within-capacity-accepts-when-full", "{}: create_within_capacity succeeded beyond capacity {}", A::NAME, cap);
        let (len1, cap1, _) = A::len_cap(self.world(w));
        ensure!(len1 == cap && cap1 == cap, "C12", "refill-to-capacity-failed", "{}: after refilling len {} capacity {} (capacity was {})", A::NAME, len1, cap1, cap);
        Ok(())
    }
}
