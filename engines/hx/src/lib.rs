pub mod cols;
pub mod cycle;
#[macro_use]
pub mod world;
#[macro_use]
pub mod sys;
pub mod explore;
pub mod fault;
pub mod journal;
pub mod limit;
pub mod look;
pub mod pop;
pub mod probe;
