//! hx — history explorer for gecs. See /verif/DESIGN.md sections 1 and 3.
//!
//!   hx run    --scenario <file.json> --out <result.json> [--threads N] [--known <known_findings.json>]
//!             [--journal <dir>] [--max-seconds S] [--max-executions N] [--dfs-check-depth D] [--mode pbfs|stateright|dfs]
//!   hx replay --scenario <file.json> --history <file.json> [--known <file>]   (exit 1 if it violates)

use std::alloc::{GlobalAlloc, Layout, System};
use std::collections::HashSet;
use std::path::PathBuf;
use std::sync::atomic::Ordering;
use std::sync::Arc;

use hx::explore::*;
use hx::sys::*;
use serde::{Deserialize, Serialize};

/// Poisoning allocator: fresh memory is filled with 0xA5 and freed memory with 0x5A, so that a read of
/// uninitialised or freed storage gives the same garbage in every run (natively such reads often "work"
/// because the allocator hands back a chunk that still holds plausible data from the previous execution).
struct Poison;

unsafe impl GlobalAlloc for Poison {
    unsafe fn alloc(&self, layout: Layout) -> *mut u8 {
        let p = System.alloc(layout);
        if !p.is_null() {
            std::ptr::write_bytes(p, 0xA5, layout.size());
        }
        p
    }
    unsafe fn dealloc(&self, ptr: *mut u8, layout: Layout) {
        std::ptr::write_bytes(ptr, 0x5A, layout.size());
        System.dealloc(ptr, layout)
    }
    unsafe fn alloc_zeroed(&self, layout: Layout) -> *mut u8 {
        System.alloc_zeroed(layout)
    }
    // realloc: the default (alloc + copy + dealloc) keeps the poisoning of the new tail and of the old block
}

#[cfg(not(feature = "no_poison"))]
#[global_allocator]
static GLOBAL: Poison = Poison;

#[derive(Serialize, Deserialize, Default)]
struct Output {
    scenario: Option<Scenario>,
    config: String,
    stats: RunStats,
    counters: Counters,
    violations: Vec<Found>,
    violations_total: u64,
    samples: Vec<Vec<Op>>,
    outcomes: std::collections::BTreeMap<String, u64>,
    depth_histogram: std::collections::BTreeMap<u8, u64>,
    dfs_crosscheck: Option<DfsCross>,
    narch: usize,
}

#[derive(Serialize, Deserialize, Default)]
struct DfsCross {
    depth: u8,
    dfs_histories: u64,
    dfs_unique_keys: u64,
    bfs_unique_keys_at_depth: u64,
    keys_equal: bool,
    verdicts_equal: bool,
}

fn arg(args: &[String], name: &str) -> Option<String> {
    args.iter().position(|a| a == name).and_then(|i| args.get(i + 1).cloned())
}

fn config_string() -> String {
    let mut f = Vec::new();
    if cfg!(feature = "events") {
        f.push("events");
    }
    if cfg!(feature = "wrapping_version") {
        f.push("wrapping_version");
    }
    if cfg!(feature = "32_components") {
        f.push("32_components");
    }
    format!("features=[{}] debug_assertions={}", f.join(","), cfg!(debug_assertions))
}

fn load_known(path: Option<String>) -> Arc<Vec<KnownFinding>> {
    let v = match path {
        Some(p) => {
            let txt = std::fs::read_to_string(&p).unwrap_or_else(|e| panic!("cannot read {}: {}", p, e));
            let j: serde_json::Value = serde_json::from_str(&txt).expect("known findings: bad json");
            serde_json::from_value(j["findings"].clone()).expect("known findings: bad format")
        }
        None => Vec::new(),
    };
    Arc::new(v)
}

fn main() {
    let args: Vec<String> = std::env::args().collect();
    let cmd = args.get(1).cloned().unwrap_or_default();
    // Expected panics (fault injection, forged handles) must not flood stderr.
    // The hook records WHERE the last panic of this thread was raised: an unexpected panic that comes out of the library's own
    // sources is the library's failure (a verdict), one raised in the harness is the harness' (a machinery error).
    let verbose = std::env::var("HX_VERBOSE_PANICS").is_ok();
    std::panic::set_hook(Box::new(move |info| {
        hx::sys::note_panic_location(info.location().map(|l| format!("{}:{}", l.file(), l.line())).unwrap_or_default());
        if verbose {
            eprintln!("{}", info);
        }
    }));
    if cmd == "limit" {
        let depth: usize = arg(&args, "--depth").map(|s| s.parse().unwrap()).unwrap_or(1);
        let t0 = std::time::Instant::now();
        let (vios, st) = hx::limit::run_limit(depth);
        let out = serde_json::json!({"config": config_string(), "violations": vios, "stats": st, "wall_s": t0.elapsed().as_secs_f64()});
        std::fs::write(arg(&args, "--out").expect("--out"), serde_json::to_string_pretty(&out).unwrap()).expect("write result");
        std::process::exit(if vios.is_empty() { 0 } else { 1 });
    }
    if cmd == "population" {
        let sizes: Vec<usize> = arg(&args, "--sizes").expect("--sizes").split(',').map(|s| s.parse().unwrap()).collect();
        let t0 = std::time::Instant::now();
        let (vios, st) = hx::pop::run_pop(&sizes);
        let out = serde_json::json!({"config": config_string(), "violations": vios, "stats": st, "wall_s": t0.elapsed().as_secs_f64()});
        std::fs::write(arg(&args, "--out").expect("--out"), serde_json::to_string_pretty(&out).unwrap()).expect("write result");
        std::process::exit(if vios.is_empty() { 0 } else { 1 });
    }
    if cmd == "cycle" {
        let t0 = std::time::Instant::now();
        let (vios, st) = hx::cycle::run_cycle();
        let out = serde_json::json!({"config": config_string(), "violations": vios, "stats": st, "wall_s": t0.elapsed().as_secs_f64()});
        std::fs::write(arg(&args, "--out").expect("--out"), serde_json::to_string_pretty(&out).unwrap()).expect("write result");
        std::process::exit(if vios.is_empty() { 0 } else { 1 });
    }
    let sc_path = arg(&args, "--scenario").expect("--scenario");
    let sc: Scenario = serde_json::from_str(&std::fs::read_to_string(&sc_path).expect("read scenario")).expect("scenario json");
    let known = load_known(arg(&args, "--known"));
    match cmd.as_str() {
        "run" => {
            let out_path = arg(&args, "--out").expect("--out");
            let threads: usize = arg(&args, "--threads").map(|s| s.parse().unwrap()).unwrap_or(16);
            let max_seconds = arg(&args, "--max-seconds").map(|s| s.parse().unwrap());
            let max_exec: u64 = arg(&args, "--max-executions").map(|s| s.parse().unwrap()).unwrap_or(u64::MAX);
            let dfs_depth: u8 = arg(&args, "--dfs-check-depth").map(|s| s.parse().unwrap()).unwrap_or(0);
            let mode = arg(&args, "--mode").unwrap_or_else(|| "pbfs".into());
            hx::journal::init(arg(&args, "--journal").map(PathBuf::from));

            let sh = Arc::new(Shared::new(sc.clone(), known.clone(), dfs_depth > 0 || mode == "dfs", max_seconds, max_exec));
            let dump_histories = arg(&args, "--dump-histories");
            if dump_histories.is_some() {
                *sh.all_histories.lock().unwrap() = Some(Vec::new());
            }
            let stats = match mode.as_str() {
                "dfs" => run_dfs(&sh),
                "stateright" => run_bfs(sh.clone(), threads),
                _ => run_pbfs(sh.clone(), threads),
            };

            // Cross-check of the explorer itself: plain DFS over all histories to a smaller depth must
            // see exactly the canonical keys the BFS saw up to that depth, and the same verdict.
            let mut cross = None;
            if dfs_depth > 0 && mode != "dfs" {
                let mut sc2 = sc.clone();
                sc2.depth = dfs_depth.min(sc.depth);
                let sh2 = Shared::new(sc2.clone(), known.clone(), true, max_seconds, max_exec);
                let st2 = run_dfs(&sh2);
                let k2: HashSet<(u128, u8)> = sh2.keys.lock().unwrap().clone();
                let k1: HashSet<(u128, u8)> = sh.keys.lock().unwrap().iter().filter(|(_, d)| *d <= sc2.depth).cloned().collect();
                let v1: HashSet<(String, String)> = sh.found.lock().unwrap().values().filter(|f| f.history.len() <= sc2.depth as usize).map(|f| (f.prop.clone(), f.oracle.clone())).collect();
                let v2: HashSet<(String, String)> = sh2.found.lock().unwrap().keys().cloned().collect();
                cross = Some(DfsCross {
                    depth: sc2.depth,
                    dfs_histories: st2.executions,
                    dfs_unique_keys: k2.len() as u64,
                    bfs_unique_keys_at_depth: k1.len() as u64,
                    keys_equal: k1 == k2 || stats.capped || st2.capped,
                    verdicts_equal: v1.is_subset(&v2) || stats.capped || st2.capped,
                });
            }

            let out = Output {
                scenario: Some(sc),
                config: config_string(),
                stats,
                counters: sh.counters.lock().unwrap().clone(),
                violations: sh.found.lock().unwrap().values().cloned().collect(),
                violations_total: sh.found_total.load(Ordering::Relaxed),
                samples: sh.samples.lock().unwrap().clone(),
                outcomes: sh.outcomes.lock().unwrap().clone(),
                depth_histogram: sh.depth_hist.lock().unwrap().clone(),
                dfs_crosscheck: cross,
                narch: hx::world::NARCH,
            };
            std::fs::write(&out_path, serde_json::to_string_pretty(&out).unwrap()).expect("write result");
            if let Some(p) = dump_histories {
                let mut hs = sh.all_histories.lock().unwrap().take().unwrap_or_default();
                hs.sort_by_key(|h| (h.len(), format!("{:?}", h)));
                hs.dedup();
                std::fs::write(p, serde_json::to_string(&hs).unwrap()).expect("write histories");
            }
        }
        "replay" => {
            let hist_path = arg(&args, "--history").expect("--history");
            let hist: Vec<Op> = serde_json::from_str(&std::fs::read_to_string(&hist_path).expect("read history")).expect("history json");
            let sh = Shared::new(sc, known, false, None, u64::MAX);
            let st = execute(&sh, &hist);
            let found: Vec<Found> = sh.found.lock().unwrap().values().cloned().collect();
            println!("{}", serde_json::to_string_pretty(&serde_json::json!({
                "config": config_string(),
                "history": hist,
                "key": format!("{:032x}", st.key),
                "violations": found,
                "counters": *sh.counters.lock().unwrap(),
            })).unwrap());
            std::process::exit(if st.bad { 1 } else { 0 });
        }
        _ => {
            eprintln!("usage: hx run|replay ...");
            std::process::exit(2);
        }
    }
}
