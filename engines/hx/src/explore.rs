//! Exploration: stateright BFS over operation histories (stateless re-execution per transition),
//! plus a plain DFS enumerator without deduplication used as a cross-check and under Miri/ASan.

use std::collections::{BTreeMap, HashSet};
use std::hash::{Hash, Hasher};
use std::panic::{catch_unwind, AssertUnwindSafe};
use std::sync::atomic::{AtomicBool, AtomicU64, Ordering};
use std::sync::{Arc, Mutex};
use std::time::{Duration, Instant};

use serde::{Deserialize, Serialize};
use stateright::{Checker, Model, Property};

use crate::sys::*;

#[derive(Clone, Debug, Serialize, Deserialize)]
pub struct Found {
    pub prop: String,
    pub oracle: String,
    pub msg: String,
    pub history: Vec<Op>,
    pub phase: String,
}

pub struct Shared {
    pub sc: Scenario,
    pub known: Arc<Vec<KnownFinding>>,
    pub found: Mutex<BTreeMap<(String, String), Found>>,
    pub found_total: AtomicU64,
    pub counters: Mutex<Counters>,
    pub executions: AtomicU64,
    pub transitions: AtomicU64,
    pub keys: Mutex<HashSet<(u128, u8)>>,
    pub record_keys: bool,
    pub stop: AtomicBool,
    pub capped: AtomicBool,
    pub deadline: Option<Instant>,
    pub max_states: u64,
    pub samples: Mutex<Vec<Vec<Op>>>,
    pub outcomes: Mutex<BTreeMap<String, u64>>,
    pub depth_hist: Mutex<BTreeMap<u8, u64>>,
    pub max_depth_seen: AtomicU64,
    /// Every executed history (only filled when asked for: small enumerations whose histories are replayed under Miri).
    pub all_histories: Mutex<Option<Vec<Vec<Op>>>>,
}

impl Shared {
    pub fn new(sc: Scenario, known: Arc<Vec<KnownFinding>>, record_keys: bool, max_seconds: Option<u64>, max_states: u64) -> Self {
        Shared {
            sc,
            known,
            found: Mutex::new(BTreeMap::new()),
            found_total: AtomicU64::new(0),
            counters: Mutex::new(Counters::default()),
            executions: AtomicU64::new(0),
            transitions: AtomicU64::new(0),
            keys: Mutex::new(HashSet::new()),
            record_keys,
            stop: AtomicBool::new(false),
            capped: AtomicBool::new(false),
            deadline: max_seconds.map(|s| Instant::now() + Duration::from_secs(s)),
            max_states,
            samples: Mutex::new(Vec::new()),
            outcomes: Mutex::new(BTreeMap::new()),
            depth_hist: Mutex::new(BTreeMap::new()),
            max_depth_seen: AtomicU64::new(0),
            all_histories: Mutex::new(None),
        }
    }

    fn record(&self, v: Vio, history: &[Op], phase: &str) {
        self.found_total.fetch_add(1, Ordering::Relaxed);
        let mut f = self.found.lock().unwrap();
        let k = (v.prop.clone(), v.oracle.clone());
        let better = match f.get(&k) {
            None => true,
            Some(old) => history.len() < old.history.len(),
        };
        if better {
            f.insert(k, Found { prop: v.prop, oracle: v.oracle, msg: v.msg, history: history.to_vec(), phase: phase.to_string() });
        }
        // A badly broken tree produces violations everywhere; there is no point in going on for long.
        if f.len() >= 40 || self.found_total.load(Ordering::Relaxed) >= 5000 {
            self.stop.store(true, Ordering::Relaxed);
        }
    }
}

#[derive(Clone, Debug)]
pub struct St {
    pub hist: Vec<Op>,
    pub key: u128,
    pub depth: u8,
    pub bad: bool,
    pub acts: Arc<Vec<Op>>,
}

impl Hash for St {
    fn hash<H: Hasher>(&self, h: &mut H) {
        self.key.hash(h);
        self.depth.hash(h);
    }
}
impl PartialEq for St {
    fn eq(&self, o: &Self) -> bool {
        self.key == o.key && self.depth == o.depth
    }
}
impl Eq for St {}

/// Executes one history from scratch on the real implementation, in lockstep with the model,
/// runs the probe suites on the reached state and the destructive epilogue.
pub fn execute(sh: &Shared, hist: &[Op]) -> St {
    crate::journal::write(hist);
    sh.executions.fetch_add(1, Ordering::Relaxed);
    if let Some(v) = sh.all_histories.lock().unwrap().as_mut() {
        v.push(hist.to_vec());
    }
    let depth = hist.len() as u8;
    let mut key = 0u128;
    let mut acts: Vec<Op> = Vec::new();
    let mut counters = Counters::default();
    let mut phase = "setup";
    let res = catch_unwind(AssertUnwindSafe(|| -> R {
        let mut sys = Sys::new(&sh.sc, sh.known.clone())?;
        let r = (|| -> R {
            phase = "replay";
            for (i, op) in hist.iter().enumerate() {
                sys.apply(op, i + 1 == hist.len())?;
                sys.rw_round()?;
            }
            key = sys.canon_key();
            acts = sys.actions();
            phase = "probe";
            sys.probe_all()?;
            phase = "epilogue";
            sys.epilogue()?;
            Ok(())
        })();
        counters = sys.c.clone();
        if r.is_err() {
            // The world may be in any state: leak it rather than run its destructor.
            for w in sys.worlds.drain(..) {
                std::mem::forget(w);
            }
        }
        r
    }));
    let bad = match res {
        Ok(Ok(())) => false,
        Ok(Err(v)) => {
            sh.record(v, hist, phase);
            true
        }
        Err(p) => {
            // An operation the reference model considers valid (every forged / stale / faulting call is caught individually by
            // the probes) panicked. If the panic was raised inside the library's own sources, that is the library refusing a
            // legitimate call - a violation of whatever is being decided; raised anywhere else it is the harness' own failure.
            let loc = crate::sys::last_panic_location();
            if crate::sys::location_in_library(&loc) && !sh.sc.props.is_empty() {
                sh.record(Vio { prop: sh.sc.props.join(","), oracle: "library-panicked-on-legitimate-call".into(), msg: format!("in phase {} a call the model considers legitimate panicked inside the library at {}: {}", phase, loc, panic_msg(&p)) }, hist, phase);
            } else {
                sh.record(Vio { prop: "HX".into(), oracle: "harness-panic".into(), msg: format!("unguarded panic in phase {} (raised at {}): {}", phase, loc, panic_msg(&p)) }, hist, phase);
            }
            true
        }
    };
    {
        let mut c = sh.counters.lock().unwrap();
        c.merge(&counters);
    }
    if let Some(op) = hist.last() {
        let kind = format!("{:?}", op);
        let kind = kind.split(|c| c == ' ' || c == '{').next().unwrap_or("").to_string();
        *sh.outcomes.lock().unwrap().entry(format!("{}:{}", kind, if bad { "violation" } else { "ok" })).or_insert(0) += 1;
    }
    if sh.record_keys && !bad {
        sh.keys.lock().unwrap().insert((key, depth));
    }
    *sh.depth_hist.lock().unwrap().entry(depth).or_insert(0) += 1;
    sh.max_depth_seen.fetch_max(depth as u64, Ordering::Relaxed);
    {
        let mut s = sh.samples.lock().unwrap();
        if !hist.is_empty() && s.len() < 6 && (hist.len() as u8 == sh.sc.depth || s.len() < 2) {
            s.push(hist.to_vec());
        }
    }
    if let Some(d) = sh.deadline {
        if Instant::now() > d {
            sh.capped.store(true, Ordering::Relaxed);
            sh.stop.store(true, Ordering::Relaxed);
        }
    }
    if sh.executions.load(Ordering::Relaxed) > sh.max_states {
        sh.capped.store(true, Ordering::Relaxed);
        sh.stop.store(true, Ordering::Relaxed);
    }
    St { hist: hist.to_vec(), key, depth, bad, acts: Arc::new(acts) }
}

pub struct HxModel {
    pub sh: Arc<Shared>,
}

impl Model for HxModel {
    type State = St;
    type Action = Op;

    fn init_states(&self) -> Vec<St> {
        vec![execute(&self.sh, &[])]
    }

    fn actions(&self, s: &St, out: &mut Vec<Op>) {
        if s.bad || s.depth >= self.sh.sc.depth || self.sh.stop.load(Ordering::Relaxed) {
            return;
        }
        out.extend(s.acts.iter().cloned());
    }

    fn next_state(&self, s: &St, op: Op) -> Option<St> {
        if self.sh.stop.load(Ordering::Relaxed) {
            return None;
        }
        self.sh.transitions.fetch_add(1, Ordering::Relaxed);
        let mut h = s.hist.clone();
        h.push(op);
        Some(execute(&self.sh, &h))
    }

    fn properties(&self) -> Vec<Property<Self>> {
        // Violations are collected by `execute` (with property tags and known-finding handling);
        // a state in which an oracle failed has no successors.
        vec![Property::always("explored", |_, _| true)]
    }
}

#[derive(Clone, Debug, Serialize, Deserialize, Default)]
pub struct RunStats {
    pub unique_states: u64,
    pub generated_states: u64,
    pub transitions: u64,
    pub executions: u64,
    pub max_depth: u64,
    pub capped: bool,
    pub wall_s: f64,
    pub threads: usize,
}

pub fn run_bfs(sh: Arc<Shared>, threads: usize) -> RunStats {
    let t0 = Instant::now();
    let model = HxModel { sh: sh.clone() };
    let checker = model.checker().threads(threads).spawn_bfs().join();
    RunStats {
        unique_states: checker.unique_state_count() as u64,
        generated_states: checker.state_count() as u64,
        transitions: sh.transitions.load(Ordering::Relaxed),
        executions: sh.executions.load(Ordering::Relaxed),
        max_depth: sh.max_depth_seen.load(Ordering::Relaxed),
        capped: sh.capped.load(Ordering::Relaxed),
        wall_s: t0.elapsed().as_secs_f64(),
        threads,
    }
}

/// Level-synchronous parallel BFS (the primary explorer). Every (state, action) pair of a level is one
/// task; tasks are pulled from a shared counter, so the work is spread over all threads even when
/// a level has few states. Deduplication on (canonical key, depth) happens between levels in task
/// order, which makes the representative history of every state — and thus the whole run —
/// independent of the thread count. A level is either completed or (cap hit) discarded.
pub fn run_pbfs(sh: Arc<Shared>, threads: usize) -> RunStats {
    use std::sync::atomic::AtomicUsize;
    let t0 = Instant::now();
    let init = execute(&sh, &[]);
    let mut seen: HashSet<(u128, u8)> = HashSet::new();
    let mut unique = 0u64;
    let mut generated = 1u64;
    let mut frontier: Vec<St> = Vec::new();
    if !init.bad {
        seen.insert((init.key, 0));
        unique = 1;
        frontier.push(init);
    }
    let mut completed_depth = 0u64;
    for depth in 0..sh.sc.depth {
        let tasks: Vec<(usize, usize)> = frontier.iter().enumerate().flat_map(|(si, st)| (0..st.acts.len()).map(move |ai| (si, ai))).collect();
        if tasks.is_empty() {
            completed_depth = sh.sc.depth as u64; // nothing left to expand: the space is exhausted
            break;
        }
        let next = AtomicUsize::new(0);
        let results: Mutex<Vec<(usize, St)>> = Mutex::new(Vec::with_capacity(tasks.len()));
        std::thread::scope(|scope| {
            for _ in 0..threads.max(1) {
                scope.spawn(|| {
                    let mut local: Vec<(usize, St)> = Vec::new();
                    loop {
                        if sh.stop.load(Ordering::Relaxed) {
                            break;
                        }
                        let i = next.fetch_add(1, Ordering::Relaxed);
                        if i >= tasks.len() {
                            break;
                        }
                        let (si, ai) = tasks[i];
                        let mut h = frontier[si].hist.clone();
                        h.push(frontier[si].acts[ai].clone());
                        sh.transitions.fetch_add(1, Ordering::Relaxed);
                        local.push((i, execute(&sh, &h)));
                    }
                    results.lock().unwrap().extend(local);
                });
            }
        });
        let mut results = results.into_inner().unwrap();
        let level_complete = results.len() == tasks.len();
        results.sort_by_key(|r| r.0);
        let mut new_frontier = Vec::new();
        for (_, st) in results {
            generated += 1;
            if st.bad {
                continue;
            }
            if seen.insert((st.key, st.depth)) {
                unique += 1;
                new_frontier.push(st);
            }
        }
        if !level_complete {
            break;
        }
        completed_depth = depth as u64 + 1;
        frontier = new_frontier;
    }
    if sh.record_keys {
        // `execute` already recorded the keys; nothing to add
    }
    RunStats {
        unique_states: unique,
        generated_states: generated,
        transitions: sh.transitions.load(Ordering::Relaxed),
        executions: sh.executions.load(Ordering::Relaxed),
        max_depth: completed_depth,
        capped: sh.capped.load(Ordering::Relaxed) || sh.stop.load(Ordering::Relaxed),
        wall_s: t0.elapsed().as_secs_f64(),
        threads,
    }
}

/// Plain enumeration of ALL histories up to sc.depth (no deduplication, no stateright).
pub fn run_dfs(sh: &Shared) -> RunStats {
    let t0 = Instant::now();
    fn rec(sh: &Shared, hist: &mut Vec<Op>) {
        if sh.stop.load(Ordering::Relaxed) {
            return;
        }
        let st = execute(sh, hist);
        if st.bad || st.depth >= sh.sc.depth {
            return;
        }
        for op in st.acts.iter() {
            sh.transitions.fetch_add(1, Ordering::Relaxed);
            hist.push(op.clone());
            rec(sh, hist);
            hist.pop();
        }
    }
    let mut h = Vec::new();
    rec(sh, &mut h);
    let uniq = sh.keys.lock().unwrap().len() as u64;
    RunStats {
        unique_states: uniq,
        generated_states: sh.executions.load(Ordering::Relaxed),
        transitions: sh.transitions.load(Ordering::Relaxed),
        executions: sh.executions.load(Ordering::Relaxed),
        max_depth: sh.max_depth_seen.load(Ordering::Relaxed),
        capped: sh.capped.load(Ordering::Relaxed),
        wall_s: t0.elapsed().as_secs_f64(),
        threads: 1,
    }
}
