// Generates the harness world declaration (16 archetypes, archetype n = first n columns of a fixed
// list; 32 with feature 32_components) and the per-archetype `impl_arch!` invocations.
use std::env;
use std::fmt::Write as _;
use std::fs;
use std::path::Path;

const COLS: [(&str, &str); 32] = [
    ("Key", "key"), ("Zed", "zed"), ("Pad", "pad"), ("Bya", "bya"), ("Byb", "byb"), ("Byc", "byc"),
    ("Byd", "byd"), ("Bye", "bye"), ("Byf", "byf"), ("Arr", "arr"), ("Txt", "txt"), ("Bxd", "bxd"),
    ("Opt", "opt"), ("Zno", "zno"), ("Trk", "trk"), ("Vek", "vek"),
    ("Xaa", "xaa"), ("Xab", "xab"), ("Xac", "xac"), ("Xad", "xad"), ("Xae", "xae"), ("Xaf", "xaf"),
    ("Xag", "xag"), ("Xah", "xah"), ("Xai", "xai"), ("Xaj", "xaj"), ("Xak", "xak"), ("Xal", "xal"),
    ("Xam", "xam"), ("Xan", "xan"), ("Xao", "xao"), ("Xap", "xap"),
];

const ARCHS: [(&str, &str); 32] = [
    ("One", "one"), ("Two", "two"), ("Thr", "thr"), ("Fou", "fou"), ("Fiv", "fiv"), ("Six", "six"),
    ("Sev", "sev"), ("Eig", "eig"), ("Nin", "nin"), ("Ten", "ten"), ("Elv", "elv"), ("Twl", "twl"),
    ("Thn", "thn"), ("Ftn", "ftn"), ("Fif", "fif"), ("Sxn", "sxn"),
    ("Qa", "qa"), ("Qb", "qb"), ("Qc", "qc"), ("Qd", "qd"), ("Qe", "qe"), ("Qf", "qf"), ("Qg", "qg"),
    ("Qh", "qh"), ("Qi", "qi"), ("Qj", "qj"), ("Qk", "qk"), ("Ql", "ql"), ("Qm", "qm"), ("Qn", "qn"),
    ("Qo", "qo"), ("Qp", "qp"),
];

fn main() {
    println!("cargo:rerun-if-changed=build.rs");
    // Which arities exist as archetypes: narrow (default) 1..4; wide 1..16; 32_components adds 17, 24, 32
    // (with wide: every arity 1..32).
    let big = env::var("CARGO_FEATURE_32_COMPONENTS").is_ok();
    let wide = env::var("CARGO_FEATURE_WIDE").is_ok();
    let arities: Vec<usize> = match (wide, big) {
        (false, false) => vec![1, 2, 3, 4],
        (true, false) => (1..=16).collect(),
        (false, true) => vec![1, 2, 3, 4, 17, 24, 32],
        (true, true) => (1..=32).collect(),
    };
    let n = arities.len();
    let mut s = String::new();

    // ---- world declaration ----
    s.push_str("ecs_world! {\n    ecs_name!(W);\n");
    for (a, ar) in arities.iter().enumerate() {
        if a == 0 {
            s.push_str("    #[archetype_id(5)]\n");
        }
        if a == 3 {
            // ids continue from 200 (non-contiguous on purpose)
            s.push_str("    #[archetype_id(200)]\n");
        }
        write!(s, "    ecs_archetype!({}", ARCHS[ar - 1].0).unwrap();
        for c in 0..*ar {
            write!(s, ", {}", COLS[c].0).unwrap();
        }
        s.push_str(");\n");
    }
    s.push_str("}\n\n");

    // ---- per-archetype implementations ----
    for (a, ar) in arities.iter().enumerate() {
        write!(s, "impl_arch!({}, {}, {}, {}, [", ARCHS[ar - 1].0, ARCHS[ar - 1].1, a, ar).unwrap();
        for c in 0..*ar {
            write!(s, "({}, {}, {}), ", COLS[c].0, COLS[c].1, c).unwrap();
        }
        s.push_str("]);\n");
    }

    // ---- dispatch ----
    writeln!(s, "pub const NARCH: usize = {};", n).unwrap();
    s.push_str("pub const ARCH_NAMES: [&str; NARCH] = [");
    for ar in &arities {
        write!(s, "\"{}\", ", ARCHS[ar - 1].0).unwrap();
    }
    s.push_str("];\n");
    writeln!(s, "pub const ARITIES: [usize; NARCH] = {:?};", arities).unwrap();
    s.push_str("macro_rules! with_arch {\n    ($idx:expr, $A:ident => $body:expr) => {\n        match $idx {\n");
    for (a, ar) in arities.iter().enumerate() {
        writeln!(
            s,
            "            {} => {{ type $A = $crate::world::{}; $body }}",
            a, ARCHS[ar - 1].0
        )
        .unwrap();
    }
    s.push_str("            _ => unreachable!(\"bad archetype index\"),\n        }\n    };\n}\n");

    // ---- per-world helpers over all archetypes ----
    s.push_str("pub fn dump_all(w: &W) -> Vec<VerifDump> {\n    vec![\n");
    for ar in &arities {
        writeln!(s, "        <{} as Arch>::dump(w),", ARCHS[ar - 1].0).unwrap();
    }
    s.push_str("    ]\n}\n");

    let out = Path::new(&env::var("OUT_DIR").unwrap()).join("world_gen.rs");
    fs::write(out, s).unwrap();
}
