// Generates the harness world declaration (16 archetypes, archetype n = first n columns of a fixed
// list; 32 with feature 32_components) and the per-archetype `impl_arch!` invocations.
use std::env;
use std::fmt::Write as _;
use std::fs;
use std::path::Path;

const COLS: [(&str, &str); 33] = [
    ("Key", "key"), ("Zed", "zed"), ("Pad", "pad"), ("Bya", "bya"), ("Byb", "byb"), ("Byc", "byc"),
    ("Byd", "byd"), ("Bye", "bye"), ("Byf", "byf"), ("Arr", "arr"), ("Txt", "txt"), ("Bxd", "bxd"),
    ("Opt", "opt"), ("Zno", "zno"), ("Trk", "trk"), ("Vek", "vek"),
    ("Bxe", "bxe"), ("Xab", "xab"), ("Xac", "xac"), ("Xad", "xad"), ("Xae", "xae"), ("Xaf", "xaf"),
    ("Xag", "xag"), ("Zee", "zee"), ("Xai", "xai"), ("Xaj", "xaj"), ("Xak", "xak"), ("Xal", "xal"),
    ("Xam", "xam"), ("Xan", "xan"), ("Xao", "xao"), ("Trl", "trl"),
    // index 32: only used by the permuted archetype Pfr
    ("Big", "big"),
];

const ARCHS: [(&str, &str); 32] = [
    ("One", "one"), ("Two", "two"), ("Thr", "thr"), ("Fou", "fou"), ("Fiv", "fiv"), ("Six", "six"),
    ("Sev", "sev"), ("Eig", "eig"), ("Nin", "nin"), ("Ten", "ten"), ("Elv", "elv"), ("Twl", "twl"),
    ("Thn", "thn"), ("Ftn", "ftn"), ("Fif", "fif"), ("Sxn", "sxn"),
    ("Qa", "qa"), ("Qb", "qb"), ("Qc", "qc"), ("Qd", "qd"), ("Qe", "qe"), ("Qf", "qf"), ("Qg", "qg"),
    ("Qh", "qh"), ("Qi", "qi"), ("Qj", "qj"), ("Qk", "qk"), ("Ql", "ql"), ("Qm", "qm"), ("Qn", "qn"),
    ("Qo", "qo"), ("Qp", "qp"),
];

fn main() {
    println!("cargo:rerun-if-changed=build.rs");
    // Which arities exist as archetypes: narrow (default) 1..4; wide 1..16; 32_components adds 17, 24, 32
    // (with wide: every arity 1..32).
    let big = env::var("CARGO_FEATURE_32_COMPONENTS").is_ok();
    let wide = env::var("CARGO_FEATURE_WIDE").is_ok();
    let arities: Vec<usize> = match (wide, big) {
        (false, false) => vec![1, 2, 3, 4],
        (true, false) => (1..=16).collect(),
        (false, true) => vec![1, 2, 3, 4, 17, 24, 32],
        (true, true) => (1..=32).collect(),
    };
    // An archetype = (type name, field name, columns in DECLARED order as indices into COLS). Besides the prefix
    // archetypes (arity n = the first n columns) there are two with permuted orders: a zero-sized column first,
    // and the Key column last (the harness finds the Key through KEYPOS, not by position 0).
    let mut specs: Vec<(String, String, Vec<usize>)> = arities.iter().map(|ar| (ARCHS[ar - 1].0.to_string(), ARCHS[ar - 1].1.to_string(), (0..*ar).collect())).collect();
    specs.push(("Zfr".into(), "zfr".into(), vec![1, 0, 2]));
    specs.push(("Pfr".into(), "pfr".into(), vec![2, 13, 32, 0]));
    let n = specs.len();
    let mut s = String::new();

    // ---- world declaration ----
    s.push_str("ecs_world! {\n    ecs_name!(W);\n");
    for (a, (name, _, cols)) in specs.iter().enumerate() {
        if a == 0 {
            s.push_str("    #[archetype_id(5)]\n");
        }
        if a == 3 {
            // ids continue from 200 (non-contiguous on purpose, and >= 128)
            s.push_str("    #[archetype_id(200)]\n");
        }
        write!(s, "    ecs_archetype!({}", name).unwrap();
        for c in cols {
            write!(s, ", {}", COLS[*c].0).unwrap();
        }
        s.push_str(");\n");
    }
    s.push_str("}\n\n");

    // ---- per-archetype implementations ----
    for (a, (name, field, cols)) in specs.iter().enumerate() {
        let keypos = cols.iter().position(|c| *c == 0).unwrap();
        write!(s, "impl_arch!({}, {}, {}, {}, {}, [", name, field, a, cols.len(), keypos).unwrap();
        for (i, c) in cols.iter().enumerate() {
            write!(s, "({}, {}, {}), ", COLS[*c].0, COLS[*c].1, i).unwrap();
        }
        s.push_str("]);\n");
    }

    // ---- tables ----
    writeln!(s, "pub const NARCH: usize = {};", n).unwrap();
    writeln!(s, "pub const ARCH_NAMES: [&str; NARCH] = {:?};", specs.iter().map(|x| x.0.clone()).collect::<Vec<_>>()).unwrap();
    writeln!(s, "/// number of columns of every archetype").unwrap();
    writeln!(s, "pub const ARITIES: [usize; NARCH] = {:?};", specs.iter().map(|x| x.2.len()).collect::<Vec<_>>()).unwrap();
    writeln!(s, "/// position of the Key column in the declared order").unwrap();
    writeln!(s, "pub const KEYPOS: [usize; NARCH] = {:?};", specs.iter().map(|x| x.2.iter().position(|c| *c == 0).unwrap()).collect::<Vec<_>>()).unwrap();
    writeln!(s, "/// tracked columns (Key = 0, Trk = 14, Trl = 31) and zero-sized Drop columns (Zed = 1, Zee = 23) per archetype").unwrap();
    writeln!(s, "pub const TRACKED: [i64; NARCH] = {:?};", specs.iter().map(|x| x.2.iter().filter(|c| **c == 0 || **c == 14 || **c == 31).count() as i64).collect::<Vec<_>>()).unwrap();
    writeln!(s, "pub const ZEDS: [i64; NARCH] = {:?};", specs.iter().map(|x| x.2.iter().filter(|c| **c == 1 || **c == 23).count() as i64).collect::<Vec<_>>()).unwrap();
    writeln!(s, "/// for each archetype: global column id (index into the column list) of every declared position").unwrap();
    s.push_str("pub const COLMAP: [&[u8]; NARCH] = [");
    for x in &specs {
        write!(s, "&{:?}, ", x.2.iter().map(|c| *c as u8).collect::<Vec<_>>()).unwrap();
    }
    s.push_str("];\n");
    s.push_str("macro_rules! with_arch {\n    ($idx:expr, $A:ident => $body:expr) => {\n        match $idx {\n");
    for (a, x) in specs.iter().enumerate() {
        writeln!(s, "            {} => {{ type $A = $crate::world::{}; $body }}", a, x.0).unwrap();
    }
    s.push_str("            _ => unreachable!(\"bad archetype index\"),\n        }\n    };\n}\n");

    // ---- per-world helpers over all archetypes ----
    s.push_str("pub fn dump_all(w: &W) -> Vec<VerifDump> {\n    vec![\n");
    for x in &specs {
        writeln!(s, "        <{} as Arch>::dump(w),", x.0).unwrap();
    }
    s.push_str("    ]\n}\n");

    let out = Path::new(&env::var("OUT_DIR").unwrap()).join("world_gen.rs");
    fs::write(out, s).unwrap();
}
