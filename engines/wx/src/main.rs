//! wx — the world with the maximum number of archetypes (256, ids 0..=255).
//!
//! Everything the generated world does by archetype id — creation, lookup, destruction, conversion tables,
//! `Select*` enums, multi-archetype queries, the world-level event iterators — is evaluated for EVERY
//! archetype index 0..=255 and for the populations {only archetype i} (each i), {first and last}, {every
//! archetype}, {none}. The oracle is a plain list of what was created.
//!
//!   wx run --out <file>          wx replay <phase> <archetype index>

#![allow(clippy::all)]
#![allow(unused_variables, unused_mut, dead_code)]

use std::collections::BTreeMap;
use std::panic::{catch_unwind, AssertUnwindSafe};

use gecs::error::EcsError;
use gecs::prelude::*;
use serde::Serialize;

#[derive(Clone)]
pub struct K(pub u32);
#[derive(Clone)]
pub struct T(pub u32);
#[derive(Clone)]
pub struct U;

include!(concat!(env!("OUT_DIR"), "/world_gen.rs"));

#[derive(Serialize, Clone, Debug)]
struct Vio {
    prop: String,
    oracle: String,
    msg: String,
    input: serde_json::Value,
}

struct Ctx {
    found: BTreeMap<String, Vio>,
    evals: u64,
    phase: &'static str,
    arch: usize,
}

impl Ctx {
    fn report(&mut self, prop: &str, oracle: &str, msg: String) {
        let input = serde_json::json!({"phase": self.phase, "archetype_index": self.arch});
        self.found.entry(format!("{}:{}", prop, oracle)).or_insert(Vio { prop: prop.into(), oracle: oracle.into(), msg, input });
    }
}

macro_rules! chk {
    ($ctx:expr, $cond:expr, $prop:expr, $oracle:expr, $($fmt:tt)*) => {
        $ctx.evals += 1;
        if !($cond) {
            $ctx.report($prop, $oracle, format!($($fmt)*));
            return;
        }
    };
}

fn has_t(i: usize) -> bool {
    i % 3 == 0
}

/// Every live entity of the model: (archetype index, handle, K value).
type Live = Vec<(usize, EntityAny, u32)>;

fn lens(w: &MW) -> Vec<usize> {
    (0..N).map(|i| with_m!(i, A => w.archetype::<A>().len())).collect()
}

/// All lookups and conversions for one live handle.
fn check_handle(ctx: &mut Ctx, w: &mut MW, i: usize, e: EntityAny, v: u32) {
    let id = with_m!(i, A => A::ARCHETYPE_ID);
    chk!(ctx, id as usize == i, "C15", "archetype-id-not-declaration-order", "ARCHETYPE_ID of the {}-th archetype (all implicit) is {}", i, id);
    chk!(ctx, e.archetype_id() == id, "C14", "archetype-id-of-created-handle", "handle {:?} created by archetype {} carries id {}", e, i, e.archetype_id());
    chk!(ctx, w.contains(e), "C01", "live-handle-rejected:contains", "world.contains({:?}) is false for a live entity of archetype {}", e, i);
    let d = w.to_direct(e);
    chk!(ctx, d.map(|d| d.archetype_id()) == Some(id), "C01", "live-handle-rejected:to_direct", "world.to_direct({:?}) = {:?}", e, d);
    let d = d.unwrap();
    chk!(ctx, w.contains(d), "C09", "fresh-direct-handle-rejected", "world.contains({:?}) is false", d);
    let f = ecs_find!(w, e, |k: &K, h: &EntityAny| (k.0, *h));
    chk!(ctx, f == Some((v, e)), "C01,C02,C05", "find-by-dynamic-handle", "ecs_find!(world, {:?}) = {:?}, expected value {}", e, f, v);
    let f = ecs_find_borrow!(w, e, |k: &K| k.0);
    chk!(ctx, f == Some(v), "C01,C02,C05", "find-borrow-by-dynamic-handle", "ecs_find_borrow!(world, {:?}) = {:?}, expected {}", e, f, v);
    let f = ecs_find!(w, d, |k: &mut K| { k.0 += 0; k.0 });
    chk!(ctx, f == Some(v), "C09,C02,C05", "find-by-dynamic-direct-handle", "ecs_find!(world, {:?}) = {:?}, expected {}", d, f, v);
    let f = ecs_find!(w, e, |t: &T| t.0);
    chk!(ctx, f == if has_t(i) { Some(v ^ 0x5555) } else { None }, "C05", "find-on-unmatched-archetype", "ecs_find!(world, {:?}, |t: &T|) = {:?} for archetype {} (has T: {})", e, f, i, has_t(i));
    // typed view of the same entity
    let ok = with_m!(i, A => {
        match Entity::<A>::try_from(e) {
            Ok(t) => t.into_any() == e && w.archetype::<A>().contains(t) && w.contains(t) && w.archetype::<A>().resolve(t).is_some(),
            Err(_) => false,
        }
    });
    chk!(ctx, ok, "C14,C01", "typed-conversion", "Entity::<M{:03}>::try_from({:?}) failed or the typed handle does not resolve", i, e);
    // the conversion tables: every other archetype refuses, every Select* picks variant i
    for j in 0..N {
        if j != i {
            let (acc, has) = with_m!(j, B => (Entity::<B>::try_from(e).is_ok() || EntityDirect::<B>::try_from(d).is_ok(), w.archetype::<B>().contains(e)));
            chk!(ctx, !acc, "C14", "try-from-accepts-mismatch", "Entity/EntityDirect::<M{:03}>::try_from accepts a handle of archetype {}", j, i);
            chk!(ctx, !has, "C01,C03", "foreign-archetype-accepts-handle", "archetype {} contains({:?}) of archetype {}", j, e, i);
        }
    }
    let se = select_entity_index(e);
    chk!(ctx, se == Ok((i, e)), "C14", "select-entity", "SelectEntity::try_from({:?}) = {:?}", e, se);
    let sd = select_direct_index(d);
    chk!(ctx, sd == Ok((i, d)), "C14", "select-entity-direct", "SelectEntityDirect::try_from({:?}) = {:?}", d, sd);
    let sa = SelectArchetype::try_from(e).map(|s| (select_archetype_index(s), s.archetype_id()));
    chk!(ctx, sa == Ok((i, id)), "C14,C15", "select-archetype", "SelectArchetype::try_from({:?}) = {:?}", e, sa);
    let sa = SelectArchetype::try_from(id).map(|s| (select_archetype_index(s), s.archetype_id()));
    chk!(ctx, sa == Ok((i, id)), "C14,C15", "select-archetype-from-id", "SelectArchetype::try_from({}) = {:?}", id, sa);
}

/// Whole-world observations against the model.
fn check_world(ctx: &mut Ctx, w: &mut MW, live: &Live) {
    let ls = lens(w);
    for i in 0..N {
        let n = live.iter().filter(|x| x.0 == i).count();
        chk!(ctx, ls[i] == n, "C12", "len-wrong", "archetype {} has len {} but {} live entities", i, ls[i], n);
    }
    // multi-archetype queries: every K (all 256 archetypes match), every T (archetypes with i % 3 == 0)
    for borrow in [false, true] {
        let mut seen: Vec<(EntityAny, u32)> = Vec::new();
        if borrow {
            ecs_iter_borrow!(w, |k: &K, h: &EntityAny| seen.push((*h, k.0)));
        } else {
            ecs_iter!(w, |k: &K, h: &EntityAny| seen.push((*h, k.0)));
        }
        let mut exp: Vec<(EntityAny, u32)> = live.iter().map(|x| (x.1, x.2)).collect();
        let key = |x: &(EntityAny, u32)| x.0.raw();
        seen.sort_by_key(key);
        exp.sort_by_key(key);
        chk!(ctx, seen == exp, "C06,C05", "iteration-differs", "ecs_iter{}!(|k: &K|) yields {} items {:?}.., {} entities are alive", if borrow { "_borrow" } else { "" }, seen.len(), seen.iter().take(3).collect::<Vec<_>>(), exp.len());
        let mut seen: Vec<(EntityAny, u32)> = Vec::new();
        ecs_iter!(w, |t: &T, h: &EntityAny| seen.push((*h, t.0)));
        let mut exp: Vec<(EntityAny, u32)> = live.iter().filter(|x| has_t(x.0)).map(|x| (x.1, x.2 ^ 0x5555)).collect();
        seen.sort_by_key(key);
        exp.sort_by_key(key);
        chk!(ctx, seen == exp, "C06,C05", "iteration-differs", "ecs_iter!(|t: &T|) yields {} items, {} live entities have T", seen.len(), exp.len());
    }
    // Break after k items ends the whole query
    let n = live.len();
    for k in [1usize, 2, n / 2 + 1, n] {
        if k >= 1 && k <= n {
            let mut c = 0usize;
            ecs_iter!(w, |_k: &K| {
                c += 1;
                if c == k { EcsStep::Break } else { EcsStep::Continue }
            });
            chk!(ctx, c == k, "C06", "break-does-not-end-query", "Break at item {} of {} but the closure ran {} times", k, n, c);
        }
    }
}

#[cfg(feature = "events")]
fn check_events(ctx: &mut Ctx, w: &MW, created: &[EntityAny], destroyed: &[EntityAny]) {
    for (which, exp) in [("iter_created", created), ("iter_destroyed", destroyed)] {
        let run = catch_unwind(AssertUnwindSafe(|| {
            let mut got: Vec<EntityAny> = Vec::new();
            let mut hints: Vec<(usize, Option<usize>)> = Vec::new();
            let mut it: Box<dyn Iterator<Item = &EntityAny>> = if which == "iter_created" { Box::new(w.iter_created()) } else { Box::new(w.iter_destroyed()) };
            loop {
                hints.push(it.size_hint());
                match it.next() {
                    Some(e) => got.push(*e),
                    None => break,
                }
            }
            // an exhausted iterator stays exhausted
            let again = it.next().is_some();
            let count = if which == "iter_created" { w.iter_created().count() } else { w.iter_destroyed().count() };
            (got, hints, again, count)
        }));
        let (mut got, hints, again, count) = match run {
            Ok(x) => x,
            Err(p) => {
                let m = p.downcast_ref::<&str>().map(|s| s.to_string()).or_else(|| p.downcast_ref::<String>().cloned()).unwrap_or_default();
                ctx.evals += 1;
                ctx.report("C17", "event-iterator-panicked", format!("world.{}() run to exhaustion panicked: {}", which, m));
                return;
            }
        };
        for (j, (lo, hi)) in hints.iter().enumerate() {
            let rem = got.len() - j.min(got.len());
            chk!(ctx, *lo == rem && *hi == Some(rem), "C17", "size-hint-not-exact", "world.{}().size_hint() after {} items is ({}, {:?}), {} remain", which, j, lo, hi, rem);
        }
        chk!(ctx, !again && count == got.len(), "C17", "event-iterator-inconsistent", "world.{}(): count() = {}, next() yields {} items, yields again after None: {}", which, count, got.len(), again);
        let mut exp: Vec<EntityAny> = exp.to_vec();
        got.sort_by_key(|e| e.raw());
        exp.sort_by_key(|e| e.raw());
        chk!(ctx, got == exp, "C17", "world-events-not-union", "world.{}() yields {} handles {:?}.., expected {} {:?}..", which, got.len(), got.iter().take(3).collect::<Vec<_>>(), exp.len(), exp.iter().take(3).collect::<Vec<_>>());
    }
}

#[cfg(not(feature = "events"))]
fn check_events(_ctx: &mut Ctx, _w: &MW, _created: &[EntityAny], _destroyed: &[EntityAny]) {}

#[cfg(feature = "events")]
fn clear_events(w: &mut MW) {
    w.clear_events();
}
#[cfg(not(feature = "events"))]
fn clear_events(_w: &mut MW) {}

/// One population: entities (2 per listed archetype), all observations, clone, destruction of one entity per
/// archetype through the dynamic handle, events before / after.
fn run_population(ctx: &mut Ctx, archs: &[usize]) {
    let mut w = MW::new();
    let mut live: Live = Vec::new();
    check_events(ctx, &w, &[], &[]);
    for (n, &i) in archs.iter().enumerate() {
        for r in 0..2u32 {
            let v = (i as u32) * 1000 + r + 1;
            let e = create_in(&mut w, i, v);
            live.push((i, e, v));
        }
    }
    let created: Vec<EntityAny> = live.iter().map(|x| x.1).collect();
    check_events(ctx, &w, &created, &[]);
    for (i, e, v) in live.clone() {
        check_handle(ctx, &mut w, i, e, v);
    }
    check_world(ctx, &mut w, &live);
    // the clone answers alike
    let mut c = w.clone();
    check_world(ctx, &mut c, &live);
    check_events(ctx, &c, &created, &[]);
    for (i, e, v) in live.iter().cloned().step_by(2).collect::<Vec<_>>() {
        check_handle(ctx, &mut c, i, e, v);
    }
    drop(c);
    // destroy the first entity of every populated archetype through its dynamic handle
    let mut destroyed: Vec<EntityAny> = Vec::new();
    for &i in archs {
        let pos = live.iter().position(|x| x.0 == i).unwrap();
        let (_, e, _) = live.remove(pos);
        let r = w.destroy(e);
        chk!(ctx, r == Some(()), "C01", "destroy-of-live-entity-failed", "world.destroy({:?}) = {:?}", e, r);
        chk!(ctx, !w.contains(e) && w.destroy(e).is_none() && ecs_find!(w, e, |k: &K| k.0).is_none(), "C01", "stale-handle-accepted", "destroyed handle {:?} still resolves", e);
        destroyed.push(e);
    }
    check_events(ctx, &w, &created, &destroyed);
    for (i, e, v) in live.clone() {
        check_handle(ctx, &mut w, i, e, v);
    }
    check_world(ctx, &mut w, &live);
    clear_events(&mut w);
    check_events(ctx, &w, &[], &[]);
    // ecs_iter_destroy!: destroy everything that has T, keep the rest; then everything with BreakDestroy at the first
    let mut visited = 0usize;
    ecs_iter_destroy!(w, |_t: &T| {
        visited += 1;
        EcsStepDestroy::ContinueDestroy
    });
    let with_t = live.iter().filter(|x| has_t(x.0)).count();
    chk!(ctx, visited == with_t, "C07", "visited-count", "ecs_iter_destroy!(|t: &T|) visited {} entities, {} have T", visited, with_t);
    let gone: Vec<EntityAny> = live.iter().filter(|x| has_t(x.0)).map(|x| x.1).collect();
    live.retain(|x| !has_t(x.0));
    chk!(ctx, gone.iter().all(|e| !w.contains(*e)), "C07", "flagged-entity-survived", "an entity flagged ContinueDestroy is still alive");
    check_events(ctx, &w, &[], &gone);
    check_world(ctx, &mut w, &live);
    let mut visited = 0usize;
    ecs_iter_destroy!(w, |_k: &K| {
        visited += 1;
        EcsStepDestroy::BreakDestroy
    });
    chk!(ctx, visited == live.len().min(1) && lens(&w).iter().sum::<usize>() == live.len() - live.len().min(1), "C07", "continued-after-break", "BreakDestroy at the first entity: visited {}, {} of {} entities left", visited, lens(&w).iter().sum::<usize>(), live.len());
}

/// Handles whose archetype byte is declared (every byte is, in this world) but that were never issued.
fn run_forged(ctx: &mut Ctx) {
    let mut w = MW::new();
    let e0 = create_in(&mut w, 0, 7);
    for i in 0..N {
        ctx.arch = i;
        let forged = EntityAny::from_raw(((0u32 << 8) | i as u32, 1)).unwrap();
        let expect = i == 0;
        let r = catch_unwind(AssertUnwindSafe(|| (w.contains(forged), w.to_direct(forged).is_some(), ecs_find!(w, forged, |k: &K| k.0))));
        chk!(ctx, matches!(r, Ok((c, d, f)) if c == expect && d == expect && f.is_some() == expect), "C03", "forged-handle-accepted", "forged handle {:?} (only archetype 0 is populated): {:?}", forged, r.ok());
    }
}

/// Populations far above the small scope: whatever depends on a SIZE THRESHOLD inside the library (chunked or unrolled
/// loops, "shrink when larger than N" heuristics, growth steps) is out of reach of bounded histories. One archetype
/// (index 0: U, K, T) is taken to n entities for several n around and above 4096.
fn run_scale(ctx: &mut Ctx) {
    for n in [4097usize, 5000, 9001] {
        ctx.arch = n;
        let mut w = MW::new();
        let mut hs: Vec<EntityAny> = Vec::with_capacity(n);
        for r in 0..n {
            hs.push(create_in(&mut w, 0, r as u32 + 1));
        }
        chk!(ctx, lens(&w)[0] == n && lens(&w)[1..].iter().all(|l| *l == 0), "C12", "len-wrong", "after {} creations len is {}", n, lens(&w)[0]);
        let distinct: std::collections::BTreeSet<(u32, u32)> = hs.iter().map(|h| h.raw()).collect();
        chk!(ctx, distinct.len() == n, "C08", "handle-reissued", "{} creations returned {} distinct handles", n, distinct.len());
        for (r, h) in hs.iter().enumerate() {
            let f = ecs_find!(w, *h, |k: &K, t: &T| (k.0, t.0));
            chk!(ctx, f == Some((r as u32 + 1, (r as u32 + 1) ^ 0x5555)), "C01,C02", "find-at-scale", "entity {} of {}: ecs_find! = {:?}", r, n, f);
        }
        let (mut cnt, mut sum) = (0usize, 0u64);
        ecs_iter!(w, |k: &K| { cnt += 1; sum += k.0 as u64; });
        chk!(ctx, cnt == n && sum == (n as u64) * (n as u64 + 1) / 2, "C06", "iteration-differs", "ecs_iter! over {} entities: {} items, value sum {}", n, cnt, sum);
        {
            let a = w.archetype_mut::<M000>();
            let plain: Vec<u32> = { let mut v = Vec::new(); let mut it = a.iter(); while let Some((_, _, k, _)) = it.next() { v.push(k.0); } v };
            let folded: Vec<u32> = a.iter().fold(Vec::new(), |mut acc, (_, _, k, _)| { acc.push(k.0); acc });
            let mut fe: Vec<u32> = Vec::new();
            a.iter_mut().for_each(|(_, _, k, _)| fe.push(k.0));
            chk!(ctx, plain.len() == n && folded == plain && fe == plain, "C06", "derived-iterator-method-disagrees", "Archetype::iter() over {} rows: next() yields {}, fold {}, iter_mut().for_each {} rows (or in another order)", n, plain.len(), folded.len(), fe.len());
            for k in [0usize, 1, 4095, 4096, n - 1, n] {
                let x = a.iter().nth(k).map(|(_, _, kk, _)| kk.0);
                chk!(ctx, x == plain.get(k).cloned(), "C06", "derived-iterator-method-disagrees", "Archetype::iter().nth({}) over {} rows = {:?}, the plain pass has {:?}", k, n, x, plain.get(k));
            }
            chk!(ctx, a.entities().len() == n && a.get_slice::<K>().len() == n && a.borrow_slice::<T>().len() == n, "C06", "slice-length", "slices of an archetype with {} entities have another length", n);
        }
        check_events(ctx, &w, &hs, &[]);
        // destroy all but the last three through the dynamic handle
        let gone: Vec<EntityAny> = hs[..n - 3].to_vec();
        for h in &gone {
            let r = w.destroy(*h);
            chk!(ctx, r == Some(()), "C01", "destroy-of-live-entity-failed", "world.destroy({:?}) = {:?} at scale {}", h, r, n);
        }
        chk!(ctx, lens(&w)[0] == 3 && gone.iter().step_by(97).all(|h| !w.contains(*h)) && hs[n - 3..].iter().all(|h| w.contains(*h)), "C01,C12", "state-after-mass-destroy", "after destroying {} of {} entities: len {}", n - 3, n, lens(&w)[0]);
        check_events(ctx, &w, &hs, &gone);
        clear_events(&mut w);
        check_events(ctx, &w, &[], &[]);
        // only destroyed events pending, then a second clear
        let two: Vec<EntityAny> = hs[n - 3..n - 1].to_vec();
        for h in &two {
            w.destroy(*h);
        }
        check_events(ctx, &w, &[], &two);
        clear_events(&mut w);
        check_events(ctx, &w, &[], &[]);
        // refill to n: no handle of the first generation comes back, no growth is needed
        let cap = w.archetype::<M000>().capacity();
        let mut again: Vec<EntityAny> = Vec::with_capacity(n);
        for r in 0..n - 1 {
            again.push(create_in(&mut w, 0, 100_000 + r as u32));
        }
        chk!(ctx, lens(&w)[0] == n && w.archetype::<M000>().capacity() == cap, "C12", "refill-to-capacity-failed", "refilling to {} entities: len {}, capacity {} -> {}", n, lens(&w)[0], cap, w.archetype::<M000>().capacity());
        chk!(ctx, again.iter().all(|h| !distinct.contains(&h.raw())), "C08", "handle-reissued", "a refill at scale {} returned a handle that had been issued before", n);
        check_events(ctx, &w, &again, &[]);
        let c = w.clone();
        chk!(ctx, lens(&c) == lens(&w) && again.iter().step_by(61).all(|h| c.contains(*h)), "C13", "clone-differs", "clone of a world with {} entities has len {:?}", n, lens(&c)[0]);
        check_events(ctx, &c, &again, &[]);
    }
}

fn arg(args: &[String], name: &str) -> Option<String> {
    args.iter().position(|a| a == name).and_then(|i| args.get(i + 1).cloned())
}

fn phase(ctx: &mut Ctx, name: &'static str, only: Option<(&str, usize)>) {
    let want = |i: usize| only.map(|(p, a)| p == name && a == i).unwrap_or(true);
    if let Some((p, _)) = only {
        if p != name {
            return;
        }
    }
    ctx.phase = name;
    match name {
        "single" => {
            for i in 0..N {
                if want(i) {
                    ctx.arch = i;
                    run_population(ctx, &[i]);
                }
            }
        }
        "first-and-last" => {
            ctx.arch = 255;
            run_population(ctx, &[0, N - 1]);
        }
        "every" => {
            ctx.arch = 0;
            run_population(ctx, &(0..N).collect::<Vec<_>>());
        }
        "none" => {
            ctx.arch = 0;
            run_population(ctx, &[]);
        }
        "forged" => run_forged(ctx),
        "scale" => run_scale(ctx),
        _ => unreachable!(),
    }
}

fn main() {
    let args: Vec<String> = std::env::args().collect();
    let t0 = std::time::Instant::now();
    let mut ctx = Ctx { found: BTreeMap::new(), evals: 0, phase: "", arch: 0 };
    let only: Option<(String, usize)> = match args.get(1).map(|s| s.as_str()) {
        Some("run") => None,
        Some("replay") => Some((args[2].clone(), args[3].parse().unwrap())),
        _ => {
            eprintln!("usage: wx run --out <file> | wx replay <phase> <archetype index>");
            std::process::exit(2);
        }
    };
    if only.is_none() {
        std::panic::set_hook(Box::new(|_| {}));
    }
    let mut phases = 0;
    for p in ["none", "single", "first-and-last", "every", "forged", "scale"] {
        let r = catch_unwind(AssertUnwindSafe(|| phase(&mut ctx, p, only.as_ref().map(|(a, b)| (a.as_str(), *b)))));
        if let Err(pl) = r {
            let m = pl.downcast_ref::<&str>().map(|s| s.to_string()).or_else(|| pl.downcast_ref::<String>().cloned()).unwrap_or_default();
            ctx.report("C19", "unexpected-panic", format!("phase {} (archetype index {}) panicked: {}", p, ctx.arch, m));
        }
        phases += 1;
    }
    let out = serde_json::json!({
        "config": format!("debug_assertions={} events={}", cfg!(debug_assertions), cfg!(feature = "events")),
        "evaluations": ctx.evals,
        "violations": ctx.found.values().collect::<Vec<_>>(),
        "wall_s": t0.elapsed().as_secs_f64(),
        "detail": {"archetypes": N, "populations": N + 3, "phases": phases, "scale_populations": [4097, 5000, 9001],
                   "samples": [{"phase": "single", "archetype_index": 255}, {"phase": "every", "archetype_index": 0}]},
    });
    match arg(&args, "--out") {
        Some(p) => std::fs::write(p, serde_json::to_string(&out).unwrap()).unwrap(),
        None => println!("{}", serde_json::to_string_pretty(&out).unwrap()),
    }
    if only.is_some() && !ctx.found.is_empty() {
        std::process::exit(1);
    }
}
