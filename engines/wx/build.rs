//! Generates the largest world the library admits: 256 archetypes with the implicit ids 0..=255.
//! Archetype i holds (K) and, when i % 3 == 0, also the tag T; when i % 5 == 0 also the zero-sized U.
use std::env;
use std::fmt::Write as _;
use std::fs;
use std::path::Path;

fn main() {
    println!("cargo:rerun-if-changed=build.rs");
    let n = 256usize;
    let mut s = String::new();
    s.push_str("ecs_world! {\n    ecs_name!(MW);\n");
    for i in 0..n {
        let mut comps = vec!["K"];
        if i % 3 == 0 {
            comps.push("T");
        }
        if i % 5 == 0 {
            comps.insert(0, "U");
        }
        writeln!(s, "    ecs_archetype!(M{:03}, {});", i, comps.join(", ")).unwrap();
    }
    s.push_str("}\n\n");
    writeln!(s, "pub const N: usize = {};", n).unwrap();
    // typed dispatch by archetype index
    s.push_str("macro_rules! with_m {\n    ($idx:expr, $A:ident => $body:expr) => {\n        match $idx {\n");
    for i in 0..n {
        writeln!(s, "            {} => {{ type $A = M{:03}; $body }}", i, i).unwrap();
    }
    s.push_str("            _ => unreachable!(\"bad archetype index\"),\n        }\n    };\n}\n");
    // creation needs the component tuple of the right shape
    s.push_str("pub fn create_in(w: &mut MW, i: usize, v: u32) -> EntityAny {\n    match i {\n");
    for i in 0..n {
        let mut comps = vec!["K(v)".to_string()];
        if i % 3 == 0 {
            comps.push("T(v ^ 0x5555)".to_string());
        }
        if i % 5 == 0 {
            comps.insert(0, "U".to_string());
        }
        writeln!(s, "        {} => w.create::<M{:03}>(({},)).into_any(),", i, i, comps.join(", ")).unwrap();
    }
    s.push_str("        _ => unreachable!(),\n    }\n}\n");
    // which variant did a Select* conversion pick
    for (f, ty, src) in [("select_entity_index", "SelectEntity", "EntityAny"), ("select_direct_index", "SelectEntityDirect", "EntityDirectAny")] {
        writeln!(s, "pub fn {}(e: {}) -> Result<(usize, {}), EcsError> {{\n    match {}::try_from(e)? {{", f, src, src, ty).unwrap();
        for i in 0..n {
            writeln!(s, "        {}::M{:03}(x) => Ok(({}, x.into_any())),", ty, i, i).unwrap();
        }
        s.push_str("    }\n}\n");
    }
    s.push_str("pub fn select_archetype_index(s: SelectArchetype) -> usize {\n    match s {\n");
    for i in 0..n {
        writeln!(s, "        SelectArchetype::M{:03} => {},", i, i).unwrap();
    }
    s.push_str("    }\n}\n");
    let out = Path::new(&env::var("OUT_DIR").unwrap()).join("world_gen.rs");
    fs::write(out, s).unwrap();
}
