//! kx — exhaustive key-space sweeps for the pure handle functions (C14) and for lookups of forged
//! handles against fixed world states (C03, engine E2).
//!
//!   kx c14 --mode boundary|full --out <file> [--threads N]
//!   kx c03 --mode boundary|full --out <file> [--threads N]
//!   kx replay-c14 <key> <gen>          kx replay-c03 <state> <key> <gen>

#![allow(clippy::all)]

use std::collections::hash_map::DefaultHasher;
use std::collections::BTreeMap;
use std::hash::{Hash, Hasher};
use std::panic::{catch_unwind, AssertUnwindSafe};
use std::sync::atomic::{AtomicBool, AtomicU64, Ordering};
use std::sync::Mutex;

use gecs::error::EcsError;
use gecs::prelude::*;
use serde::Serialize;

#[derive(Clone)]
pub struct Ka(pub u64);
#[derive(Clone)]
pub struct Kb(pub u64);

ecs_world! {
    ecs_name!(KW);
    #[archetype_id(0)]
    ecs_archetype!(Aa, Ka);
    #[archetype_id(7)]
    ecs_archetype!(Bb, Ka, Kb);
    #[archetype_id(255)]
    ecs_archetype!(Cc, Kb);
}

const IDS: [u8; 3] = [0, 7, 255];

/// A world with a SINGLE archetype (generated code may special-case it): forged and foreign handles at world level.
mod solo {
    use super::Ka;
    use gecs::prelude::*;
    ecs_world! {
        ecs_name!(KS);
        #[archetype_id(9)]
        ecs_archetype!(Solo, Ka);
    }
}
use solo::{Solo, KS};

struct Fnv(u64);
impl Hasher for Fnv {
    fn finish(&self) -> u64 {
        self.0
    }
    fn write(&mut self, bytes: &[u8]) {
        for b in bytes {
            self.0 = (self.0 ^ *b as u64).wrapping_mul(0x100000001b3);
        }
    }
}
fn h1<T: Hash>(t: &T) -> u64 {
    let mut h = DefaultHasher::new();
    t.hash(&mut h);
    h.finish()
}
fn h2<T: Hash>(t: &T) -> u64 {
    let mut h = Fnv(0xcbf29ce484222325);
    t.hash(&mut h);
    h.finish()
}

/// Crash localisation: every worker thread keeps the input it is about to evaluate in its own 32-byte slot of a
/// shared file mapping (a plain store, no system call). If the process dies (a signal, a sanitizer abort) the driver
/// reads the slots and replays each candidate in isolation.
mod beacon {
    use std::cell::Cell;
    use std::sync::atomic::{AtomicPtr, AtomicUsize, Ordering};
    pub const SLOTS: usize = 64;
    static BASE: AtomicPtr<u32> = AtomicPtr::new(std::ptr::null_mut());
    static NEXT: AtomicUsize = AtomicUsize::new(0);
    thread_local! { static SLOT: Cell<usize> = Cell::new(usize::MAX); }

    pub fn open(path: &str) {
        use std::os::unix::io::AsRawFd;
        let f = std::fs::OpenOptions::new().read(true).write(true).create(true).truncate(true).open(path).expect("beacon file");
        f.set_len((SLOTS * 32) as u64).unwrap();
        let p = unsafe { libc::mmap(std::ptr::null_mut(), SLOTS * 32, libc::PROT_READ | libc::PROT_WRITE, libc::MAP_SHARED, f.as_raw_fd(), 0) };
        assert!(p != libc::MAP_FAILED, "beacon mmap");
        std::mem::forget(f);
        BASE.store(p as *mut u32, Ordering::SeqCst);
    }

    /// kind: 3 = c03 value, 14 = c14 value
    #[inline]
    pub fn mark(kind: u32, which: u32, key: u32, gen: u32, world: u32) {
        let base = BASE.load(Ordering::Relaxed);
        if base.is_null() {
            return;
        }
        let slot = SLOT.with(|s| {
            if s.get() == usize::MAX {
                s.set(NEXT.fetch_add(1, Ordering::Relaxed) % SLOTS);
            }
            s.get()
        });
        unsafe {
            let p = base.add(slot * 8);
            std::ptr::write_volatile(p, kind);
            std::ptr::write_volatile(p.add(1), which);
            std::ptr::write_volatile(p.add(2), key);
            std::ptr::write_volatile(p.add(3), gen);
            std::ptr::write_volatile(p.add(4), world);
        }
    }
}

#[derive(Serialize, Clone, Debug)]
struct Vio {
    prop: String,
    oracle: String,
    msg: String,
    input: serde_json::Value,
}

#[derive(Clone, Copy)]
struct Inp {
    state: &'static str,
    key: u32,
    gen: u32,
    direct_index: usize,
    archetype: u8,
}

impl Inp {
    fn json(&self) -> serde_json::Value {
        serde_json::json!({"state": self.state, "key": self.key, "gen": self.gen, "direct_index": self.direct_index, "archetype": self.archetype})
    }
}

thread_local! {
    static LOCAL_EVALS: std::cell::Cell<u64> = std::cell::Cell::new(0);
}

fn count_eval(ctx: &Ctx) {
    LOCAL_EVALS.with(|c| {
        let v = c.get() + 1;
        if v >= 1 << 16 {
            ctx.evals.fetch_add(v, Ordering::Relaxed);
            c.set(0);
        } else {
            c.set(v);
        }
    });
}

fn flush_evals(ctx: &Ctx) {
    LOCAL_EVALS.with(|c| {
        ctx.evals.fetch_add(c.get(), Ordering::Relaxed);
        c.set(0);
    });
}

struct Ctx {
    found: Mutex<BTreeMap<String, Vio>>,
    stop: AtomicBool,
    evals: AtomicU64,
    known_f6: AtomicU64,
}

impl Ctx {
    fn report(&self, prop: &str, oracle: &str, msg: String, input: Inp) {
        let input = input.json();
        let mut f = self.found.lock().unwrap();
        f.entry(format!("{}:{}", prop, oracle)).or_insert(Vio { prop: prop.into(), oracle: oracle.into(), msg, input });
        if f.len() > 20 {
            self.stop.store(true, Ordering::Relaxed);
        }
    }
}

macro_rules! chk {
    ($ctx:expr, $cond:expr, $prop:expr, $oracle:expr, $input:expr, $($fmt:tt)*) => {
        if !($cond) {
            $ctx.report($prop, $oracle, format!($($fmt)*), $input);
            return;
        }
    };
}

// ---------------------------------------------------------------------------------------------
// C14: laws that must hold for one (key, generation) value. `with_panics` also exercises the
// conversions that are documented to panic on a mismatch (boundary set only).
// ---------------------------------------------------------------------------------------------

fn typed_laws<A: Archetype>(ctx: &Ctx, e: EntityAny, with_panics: bool, inp: &Inp) {
    let byte = e.archetype_id();
    let matches = byte == A::ARCHETYPE_ID;
    match Entity::<A>::try_from(e) {
        Ok(t) => {
            chk!(ctx, matches, "C14", "try-from-accepts-mismatch", *inp, "Entity::<id {}>::try_from({:?}) succeeded", A::ARCHETYPE_ID, e);
            chk!(ctx, t.into_any() == e && EntityAny::from(t) == e && t.into_any().raw() == e.raw(), "C14", "typed-roundtrip", *inp, "into_any(try_from({:?})) = {:?}", e, t.into_any());
            chk!(ctx, t.archetype_id() == A::ARCHETYPE_ID, "C14", "typed-archetype-id", *inp, "archetype_id() of a typed handle");
            let r: &EntityAny = (&t).into();
            chk!(ctx, *r == e, "C14", "ref-conversion", *inp, "<&EntityAny>::from(&typed) = {:?} for {:?}", r, e);
            let mut t2 = t;
            let rm: &mut EntityAny = (&mut t2).into();
            chk!(ctx, *rm == e, "C14", "mut-ref-conversion", *inp, "<&mut EntityAny>::from(&mut typed) = {:?} for {:?}", rm, e);
            chk!(ctx, t == t2 && h1(&t) == h1(&t2) && h2(&t) == h2(&t2), "C14", "typed-eq-hash", *inp, "a typed handle and its copy differ in ==/hash");
            // typed handles with different bits (other generation, other position) are different entities
            let (k, g) = e.raw();
            for (k2, g2) in [(k, g ^ 1), (k, g ^ 0x8000_0000), (k ^ 0x100, g)] {
                if g2 != 0 {
                    let Some(other) = raw_or_report(ctx, k2, g2, *inp) else { return };
                    if let Ok(o) = Entity::<A>::try_from(other) {
                        chk!(ctx, o != t && o.into_any() != e, "C14", "distinct-bits-compare-equal:typed", *inp, "typed handles {:?} and {:?} compare equal", t, o);
                    }
                }
            }
            // from_any agrees with try_from when the archetype matches (no panic expected)
            let f = Entity::<A>::from_any(e);
            let u = Entity::<A>::from_any_unchecked(e);
            chk!(ctx, f == t && u == t, "C14", "from-any-disagrees", *inp, "from_any / from_any_unchecked disagree with try_from for {:?}", e);
        }
        Err(err) => {
            chk!(ctx, !matches, "C14", "try-from-rejects-match", *inp, "Entity::<id {}>::try_from({:?}) failed", A::ARCHETYPE_ID, e);
            chk!(ctx, err == EcsError::InvalidEntityType, "C14", "try-from-error-kind", *inp, "try_from error is {:?}", err);
            if with_panics {
                let p = catch_unwind(|| Entity::<A>::from_any(e));
                chk!(ctx, p.is_err(), "C14", "from-any-accepts-mismatch", *inp, "Entity::<id {}>::from_any({:?}) did not panic", A::ARCHETYPE_ID, e);
                let p = catch_unwind(|| Entity::<A>::from_any_unchecked(e));
                if cfg!(debug_assertions) {
                    chk!(ctx, p.is_err(), "C14", "from-any-unchecked-debug", *inp, "from_any_unchecked({:?}) did not trip its debug assertion", e);
                } else {
                    chk!(ctx, p.map(|t| t.into_any() == e).unwrap_or(false), "C14", "from-any-unchecked-release", *inp, "from_any_unchecked({:?}) does not preserve the bits", e);
                }
            }
        }
    }
}

/// from_raw of a value with a non-zero generation must succeed (C14); a refusal is reported, never unwrapped.
fn raw_or_report(ctx: &Ctx, key: u32, gen: u32, inp: Inp) -> Option<EntityAny> {
    match EntityAny::from_raw((key, gen)) {
        Ok(e) => Some(e),
        Err(err) => {
            ctx.report("C14", "from-raw-rejects-valid", format!("from_raw(({}, {})) = Err({:?})", key, gen, err), inp);
            None
        }
    }
}

fn c14_value(ctx: &Ctx, key: u32, gen: u32, with_panics: bool) {
    beacon::mark(14, 0, key, gen, with_panics as u32);
    count_eval(ctx);
    let inp = Inp { state: "", key, gen, direct_index: 0, archetype: 0 };
    let r = EntityAny::from_raw((key, gen));
    if gen == 0 {
        chk!(ctx, matches!(r, Err(EcsError::InvalidRawEntity)), "C14", "from-raw-accepts-zero-generation", inp, "from_raw(({}, 0)) = {:?}", key, r);
        return;
    }
    let e = match r {
        Ok(e) => e,
        Err(err) => {
            ctx.report("C14", "from-raw-rejects-valid", format!("from_raw(({}, {})) = Err({:?})", key, gen, err), inp);
            return;
        }
    };
    chk!(ctx, e.raw() == (key, gen), "C14", "raw-roundtrip", inp, "from_raw(({}, {})).raw() = {:?}", key, gen, e.raw());
    let byte = key as u8;
    chk!(ctx, e.archetype_id() == byte && e.into_any() == e, "C14", "archetype-id", inp, "archetype_id() = {} for key {:#x}", e.archetype_id(), key);
    // Eq / Hash: equal to its reconstruction, unequal to every single-field neighbour
    let Some(same) = raw_or_report(ctx, e.raw().0, e.raw().1, inp) else { return };
    chk!(ctx, same == e && h1(&same) == h1(&e) && h2(&same) == h2(&e), "C14", "eq-hash", inp, "a handle and its reconstruction differ in ==/hash");
    let mut neighbours: Vec<(u32, u32)> = vec![(key ^ 1, gen), (key ^ 0x80, gen), (key ^ 0x100, gen), (key ^ 0x8000_0000, gen), (key, gen ^ 1), (key, gen ^ 0x8000_0000), (gen, key)];
    if with_panics {
        // boundary mode: every single-bit neighbour of both words
        for b in 0..32 {
            neighbours.push((key ^ (1 << b), gen));
            neighbours.push((key, gen ^ (1 << b)));
        }
    }
    for (k2, g2) in neighbours {
        if g2 != 0 && (k2, g2) != (key, gen) {
            let Some(o) = raw_or_report(ctx, k2, g2, inp) else { return };
            chk!(ctx, o != e, "C14", "distinct-bits-compare-equal", inp, "{:?} == {:?}", e, o);
        }
    }
    typed_laws::<Aa>(ctx, e, with_panics, &inp);
    typed_laws::<Bb>(ctx, e, with_panics, &inp);
    typed_laws::<Cc>(ctx, e, with_panics, &inp);
    // generated Select* enums
    let declared = IDS.contains(&byte);
    match SelectArchetype::try_from(e) {
        Ok(s) => chk!(ctx, declared && s.archetype_id() == byte, "C14", "select-archetype", inp, "SelectArchetype::try_from({:?}) picked id {}", e, s.archetype_id()),
        Err(err) => chk!(ctx, !declared && err == EcsError::InvalidEntityType, "C14", "select-archetype", inp, "SelectArchetype::try_from({:?}) = Err({:?})", e, err),
    }
    match SelectArchetype::try_from(byte) {
        Ok(s) => chk!(ctx, declared && s.archetype_id() == byte, "C14", "select-archetype-from-id", inp, "SelectArchetype::try_from({}) picked id {}", byte, s.archetype_id()),
        Err(err) => chk!(ctx, !declared && err == EcsError::InvalidEntityType, "C14", "select-archetype-from-id", inp, "SelectArchetype::try_from({}) = Err({:?})", byte, err),
    }
    match SelectEntity::try_from(e) {
        Ok(s) => {
            let (id, back) = match s {
                SelectEntity::Aa(t) => (Aa::ARCHETYPE_ID, t.into_any()),
                SelectEntity::Bb(t) => (Bb::ARCHETYPE_ID, t.into_any()),
                SelectEntity::Cc(t) => (Cc::ARCHETYPE_ID, t.into_any()),
            };
            chk!(ctx, declared && id == byte && back == e, "C14", "select-entity", inp, "SelectEntity::try_from({:?}) picked id {} holding {:?}", e, id, back);
        }
        Err(err) => chk!(ctx, !declared && err == EcsError::InvalidEntityType, "C14", "select-entity", inp, "SelectEntity::try_from({:?}) = Err({:?})", e, err),
    }
}

fn direct_laws<A: Archetype>(ctx: &Ctx, idx: usize, ver: gecs::version::ArchetypeVersion)
where
    SelectEntityDirect: From<EntityDirect<A>>,
{
    count_eval(ctx);
    let inp = Inp { state: "", key: 0, gen: 0, direct_index: idx, archetype: A::ARCHETYPE_ID };
    let t = gecs::__internal::new_entity_direct::<A>(idx, ver);
    let any = t.into_any();
    chk!(ctx, any.archetype_id() == A::ARCHETYPE_ID && t.archetype_id() == A::ARCHETYPE_ID, "C14", "direct-archetype-id", inp, "direct handle of id {} reports {}", A::ARCHETYPE_ID, any.archetype_id());
    chk!(ctx, EntityDirect::<A>::try_from(any).ok() == Some(t) && EntityDirect::<A>::from_any(any) == t && EntityDirect::<A>::from_any_unchecked(any) == t && EntityDirectAny::from(t) == any,
        "C14", "direct-roundtrip", inp, "direct handle {:?} does not survive into_any/try_from", t);
    let r: &EntityDirectAny = (&t).into();
    chk!(ctx, *r == any && h1(&any) == h1(r) && h2(&t) == h2(&t.clone()), "C14", "direct-eq-hash", inp, "direct handle eq/hash");
    if idx > 0 {
        let o = gecs::__internal::new_entity_direct::<A>(idx - 1, ver);
        chk!(ctx, o != t && o.into_any() != any, "C14", "distinct-bits-compare-equal", inp, "direct handles with different indices compare equal");
    }
    for b in [0usize, 7, 8, 15, 16, 23] {
        let i2 = idx ^ (1 << b);
        if i2 != idx && i2 < (1 << 24) {
            let o = gecs::__internal::new_entity_direct::<A>(i2, ver);
            chk!(ctx, o != t && o.into_any() != any, "C14", "distinct-bits-compare-equal", inp, "direct handles with different indices compare equal: {:?} {:?}", o, t);
        }
    }
    // single-field neighbours in the other two fields: another archetype version, another archetype
    for v2 in [1u32, 2, 0x8000_0000, u32::MAX] {
        let o = gecs::__internal::new_entity_direct::<A>(idx, version_of(v2));
        if version_of(v2) != ver {
            chk!(ctx, o != t && o.into_any() != any, "C14", "distinct-bits-compare-equal", inp, "direct handles with different versions compare equal: {:?} {:?}", o, t);
        } else {
            chk!(ctx, o == t && o.into_any() == any && h1(&o.into_any()) == h1(&any) && h2(&o) == h2(&t), "C14", "direct-eq-hash", inp, "equal direct handles differ in ==/hash");
        }
    }
    macro_rules! other {
        ($B:ident) => {
            if $B::ARCHETYPE_ID != A::ARCHETYPE_ID {
                chk!(ctx, EntityDirect::<$B>::try_from(any) == Err(EcsError::InvalidEntityType), "C14", "direct-try-from-accepts-mismatch", inp, "EntityDirect::<id {}>::try_from({:?}) succeeded", $B::ARCHETYPE_ID, any);
                let o = gecs::__internal::new_entity_direct::<$B>(idx, ver).into_any();
                chk!(ctx, o != any && !(o == any), "C14", "distinct-bits-compare-equal", inp, "dynamic direct handles of different archetypes compare equal: {:?} {:?}", o, any);
            }
        };
    }
    other!(Aa);
    other!(Bb);
    other!(Cc);
    match SelectEntityDirect::try_from(any) {
        Ok(s) => {
            let id = match s {
                SelectEntityDirect::Aa(x) => (Aa::ARCHETYPE_ID, x.into_any()),
                SelectEntityDirect::Bb(x) => (Bb::ARCHETYPE_ID, x.into_any()),
                SelectEntityDirect::Cc(x) => (Cc::ARCHETYPE_ID, x.into_any()),
            };
            chk!(ctx, id == (A::ARCHETYPE_ID, any), "C14", "select-entity-direct", inp, "SelectEntityDirect::try_from({:?}) picked {:?}", any, id);
        }
        Err(err) => ctx.report("C14", "select-entity-direct", format!("SelectEntityDirect::try_from({:?}) = Err({:?})", any, err), inp),
    }
}

fn boundary_positions() -> Vec<u32> {
    let mut v: Vec<u32> = vec![0, 1, 2, 3, 4, 5, 7, 8, 15, 16, 17, 255, 256, 257, 1023, 4095, 4096, 65535, 65536, 65537];
    for s in [20u32, 22, 23, 24] {
        let b = 1u32 << s;
        v.extend([b - 2, b - 1]);
        if s < 24 {
            v.extend([b, b + 1]);
        }
    }
    v.extend([0x555555, 0xAAAAAA, 0x7FFFFF, 0x800000, 0xFFFFFE, 0xFFFFFF, 0x123456, 0xFEDCBA]);
    v.sort();
    v.dedup();
    v.retain(|p| *p < (1 << 24));
    v
}

fn boundary_gens() -> Vec<u32> {
    vec![0, 1, 2, 3, 0x7FFF_FFFF, 0x8000_0000, 0x8000_0001, 0xFFFF_FFFD, 0xFFFF_FFFE, 0xFFFF_FFFF, 0x0100_0007, 0x0000_FF00]
}

fn par_for(threads: usize, n: u64, ctx: &Ctx, f: impl Fn(u64) + Sync) {
    let next = AtomicU64::new(0);
    let block = 1u64 << 16;
    std::thread::scope(|s| {
        for _ in 0..threads {
            s.spawn(|| loop {
                let b = next.fetch_add(block, Ordering::Relaxed);
                if b >= n || ctx.stop.load(Ordering::Relaxed) {
                    break;
                }
                for i in b..(b + block).min(n) {
                    f(i);
                }
                flush_evals(ctx);
            });
        }
    });
}

fn par_for_init<T>(threads: usize, n: u64, ctx: &Ctx, init: impl Fn() -> T + Sync, f: impl Fn(&T, u64) + Sync) {
    let next = AtomicU64::new(0);
    let block = 1u64 << 16;
    std::thread::scope(|s| {
        for _ in 0..threads {
            s.spawn(|| {
                // a world is not Sync: every thread builds its own (deterministically identical) copy
                let t = init();
                loop {
                    let b = next.fetch_add(block, Ordering::Relaxed);
                    if b >= n || ctx.stop.load(Ordering::Relaxed) {
                        break;
                    }
                    for i in b..(b + block).min(n) {
                        f(&t, i);
                    }
                    flush_evals(ctx);
                }
            });
        }
    });
}

/// 2^32 unless KX_BITS narrows the sweep (timing experiments only; the driver never sets it).
fn sweep_keys() -> u64 {
    1u64 << std::env::var("KX_BITS").ok().and_then(|s| s.parse::<u32>().ok()).unwrap_or(32)
}

fn version_of(n: u32) -> gecs::version::ArchetypeVersion {
    let mut w = KW::new();
    w.aa.data.verif_preset_versions(1, n);
    w.aa.version()
}

fn run_c14(full: bool, threads: usize, ctx: &Ctx) -> serde_json::Value {
    // boundary set: all 256 archetype bytes x boundary positions x boundary generations, with the panicking conversions
    let pos = boundary_positions();
    let gens = boundary_gens();
    let mut distinct = 0u64;
    for b in 0..=255u32 {
        for p in &pos {
            for g in &gens {
                c14_value(ctx, (p << 8) | b, *g, true);
                distinct += 1;
            }
        }
    }
    let vers: Vec<_> = [1u32, 2, 0x8000_0000, u32::MAX].iter().map(|v| version_of(*v)).collect();
    for p in &pos {
        for v in &vers {
            direct_laws::<Aa>(ctx, *p as usize, *v);
            direct_laws::<Bb>(ctx, *p as usize, *v);
            direct_laws::<Cc>(ctx, *p as usize, *v);
        }
    }
    let mut full_gens: Vec<u32> = Vec::new();
    if full {
        // all 2^32 keys x four generations; all 2^24 direct indices x three archetypes x two versions
        full_gens = vec![1, 2, 0x8000_0000, u32::MAX];
        for g in &full_gens {
            let g = *g;
            par_for(threads, sweep_keys(), ctx, |k| c14_value(ctx, k as u32, g, false));
        }
        for v in [vers[0], vers[3]] {
            par_for(threads, 1u64 << 24, ctx, |i| {
                direct_laws::<Aa>(ctx, i as usize, v);
                direct_laws::<Bb>(ctx, i as usize, v);
                direct_laws::<Cc>(ctx, i as usize, v);
            });
        }
    }
    serde_json::json!({
        "boundary_bytes": 256, "boundary_positions": pos.len(), "boundary_generations": gens.len(), "boundary_values": distinct,
        "full_sweep": full, "full_sweep_generations": full_gens, "full_sweep_keys": if full { sweep_keys() } else { 0 },
        "samples": [{"key": (pos[3] << 8) | 7, "gen": 1}, {"key": (0xFFFFFFu32 << 8) | 255, "gen": u32::MAX}, {"key": 100, "gen": 0}],
    })
}

// ---------------------------------------------------------------------------------------------
// C03 E2: forged handles against four fixed world states.
// ---------------------------------------------------------------------------------------------

struct Fixed {
    which: usize,
    name: &'static str,
    world: KW,
    /// live handles: bits -> payload of its Ka (Aa, Bb) or Kb (Cc) column
    live: BTreeMap<(u32, u32), u64>,
}

fn payload(uid: u64) -> u64 {
    uid.wrapping_mul(0x9E37_79B9_7F4A_7C15) ^ 0x5bd1_e995
}

fn build_state(which: usize) -> Fixed {
    let mut live = BTreeMap::new();
    let mut uid = 1u64;
    let mut mk = |live: &mut BTreeMap<(u32, u32), u64>, w: &mut KW, arch: u8| -> EntityAny {
        let p = payload(uid);
        uid += 1;
        let e: EntityAny = match arch {
            0 => w.create::<Aa>((Ka(p),)).into(),
            7 => w.create::<Bb>((Ka(p), Kb(!p))).into(),
            _ => w.create::<Cc>((Kb(p),)).into(),
        };
        live.insert(e.raw(), p);
        e
    };
    match which {
        0 => Fixed { which, name: "empty(cap 4)", world: KW::with_capacity(KWCapacity { aa: 4, bb: 4, cc: 4 }), live },
        1 => Fixed { which, name: "capacity 0", world: KW::new(), live },
        2 => {
            let mut w = KW::with_capacity(KWCapacity { aa: 4, bb: 4, cc: 4 });
            for _ in 0..4 {
                mk(&mut live, &mut w, 0);
                mk(&mut live, &mut w, 7);
                mk(&mut live, &mut w, 255);
            }
            Fixed { which, name: "full(cap 4)", world: w, live }
        }
        _ => {
            // mixed: free positions whose generation equals generations of live handles elsewhere
            let mut w = KW::with_capacity(KWCapacity { aa: 4, bb: 4, cc: 2 });
            let mut hs = Vec::new();
            for _ in 0..4 {
                hs.push(mk(&mut live, &mut w, 0));
                hs.push(mk(&mut live, &mut w, 7));
            }
            // churn: destroy two per archetype, recreate one (generation 2 live next to generation-2 free slots)
            for h in [hs[0], hs[4], hs[1], hs[5]] {
                assert!(w.destroy(h).is_some());
                live.remove(&h.raw());
            }
            mk(&mut live, &mut w, 0);
            mk(&mut live, &mut w, 7);
            mk(&mut live, &mut w, 255);
            Fixed { which, name: "mixed(free slots with matching generations)", world: w, live }
        }
    }
}

fn c03_typed<A: Archetype>(ctx: &Ctx, fx: &Fixed, arch: &A, e: EntityAny, read: impl Fn(&A, usize) -> Option<u64>, inp: &Inp)
where
    A: ArchetypeCanResolve<Entity<A>> + ArchetypeCanResolve<EntityAny>,
{
    let bits = e.raw();
    let byte_ok = e.archetype_id() == A::ARCHETYPE_ID;
    // dynamic key at the archetype level: accepted iff bit-identical to a live handle of this archetype
    let want = byte_ok && fx.live.contains_key(&bits);
    let got = arch.resolve(e);
    chk!(ctx, got.is_some() == want && arch.contains(e) == want && arch.to_direct(e).is_some() == want, "C03", "forged-handle-accepted:sweep-any", *inp,
        "state '{}': archetype id {} resolve({:?}) = {:?}, expected accepted = {}", fx.name, A::ARCHETYPE_ID, e, got, want);
    if let Some(i) = got {
        chk!(ctx, read(arch, i) == fx.live.get(&bits).cloned(), "C03", "forged-reaches-other-entity:sweep", *inp, "state '{}': {:?} reaches a row that is not its own", fx.name, e);
    }
    // typed key without checking the archetype byte (release builds): F6 class when the byte is foreign
    if !cfg!(debug_assertions) || byte_ok {
        let t = Entity::<A>::from_any_unchecked(e);
        let got = arch.resolve(t);
        // the entity of A that sits at this position with this generation (whatever byte the value carries)
        let own = ((bits.0 & !0xff) | A::ARCHETYPE_ID as u32, bits.1);
        let at_pos = fx.live.get(&own).cloned();
        if byte_ok {
            chk!(ctx, got.is_some() == want, "C03", "forged-handle-accepted:sweep-typed", *inp, "state '{}': typed resolve({:?}) = {:?}", fx.name, e, got);
        } else {
            // known finding F6: resolves on (position, generation) alone. Anything beyond that is a violation.
            chk!(ctx, got.is_some() == at_pos.is_some(), "C03", "forged-handle-accepted:sweep-typed-foreign-byte", *inp,
                "state '{}': Entity::<id {}>::from_any_unchecked({:?}) resolve = {:?} but live entity at that position/generation: {}", fx.name, A::ARCHETYPE_ID, e, got, at_pos.is_some());
            if got.is_some() {
                ctx.known_f6.fetch_add(1, Ordering::Relaxed);
            }
        }
        if let Some(i) = got {
            chk!(ctx, read(arch, i) == at_pos, "C03", "forged-read-garbage:sweep", *inp, "state '{}': typed lookup of {:?} reads a row that is not the entity at that position", fx.name, e);
        }
        chk!(ctx, arch.contains(t) == got.is_some() && arch.to_direct(t).is_some() == got.is_some(), "C03", "lookup-paths-disagree:sweep", *inp, "contains/to_direct disagree with resolve for {:?}", e);
    }
}

fn c03_value(ctx: &Ctx, fx: &Fixed, key: u32, gen: u32, world_level: bool) {
    beacon::mark(3, fx.which as u32, key, gen, world_level as u32);
    count_eval(ctx);
    let inp = Inp { state: fx.name, key, gen, direct_index: 0, archetype: 0 };
    let Some(e) = raw_or_report(ctx, key, gen, inp) else { return };
    let w = &fx.world;
    c03_typed::<Aa>(ctx, fx, &w.aa, e, |a, i| a.borrow_slice::<Ka>().get(i).map(|c| c.0), &inp);
    c03_typed::<Bb>(ctx, fx, &w.bb, e, |a, i| a.borrow_slice::<Ka>().get(i).map(|c| c.0), &inp);
    c03_typed::<Cc>(ctx, fx, &w.cc, e, |a, i| a.borrow_slice::<Kb>().get(i).map(|c| c.0), &inp);
    if world_level {
        let declared = IDS.contains(&(key as u8));
        let want = fx.live.contains_key(&(key, gen));
        let r = catch_unwind(AssertUnwindSafe(|| (w.contains(e), w.to_direct(e).is_some())));
        match r {
            Ok((c, d)) => chk!(ctx, declared && c == want && d == want, "C03", "forged-handle-accepted:sweep-world", inp, "state '{}': World::contains({:?}) = {}, to_direct = {}, expected {}", fx.name, e, c, d, want),
            Err(_) => chk!(ctx, !declared, "C03", "unexpected-panic:sweep-world", inp, "World::contains({:?}) panicked although archetype id {} is declared", e, key as u8),
        }
    }
}

/// The single-archetype world KS (Solo, id 9; two live entities in positions 0 and 2 at generation 1, position 1 freed at
/// generation 2, capacity 4): every archetype byte x boundary positions x generations as EntityAny, and the dynamic direct
/// handles of the three-archetype world KW (bytes 0, 7, 255), through the WORLD-level API.
fn c03_solo(ctx: &Ctx) -> u64 {
    let mut w = KS::with_capacity(solo::KSCapacity { solo: 4 });
    let e0 = w.create::<Solo>((Ka(10),));
    let e1 = w.create::<Solo>((Ka(11),));
    let e2 = w.create::<Solo>((Ka(12),));
    w.destroy(e1);
    let live: Vec<(u32, u32)> = vec![e0.into_any().raw(), e2.into_any().raw()];
    let mut n = 0u64;
    for b in 0..=255u32 {
        for p in [0u32, 1, 2, 3, 4, 5, 0xFFFFFF] {
            for g in [1u32, 2, 3, u32::MAX] {
                n += 1;
                let key = (p << 8) | b;
                let inp = Inp { state: "single-archetype world", key, gen: g, direct_index: 0, archetype: 9 };
                let Some(e) = raw_or_report(ctx, key, g, inp) else { continue };
                let want = live.contains(&(key, g));
                let r = catch_unwind(AssertUnwindSafe(|| (w.contains(e), w.to_direct(e).is_some())));
                match r {
                    Ok((c, d)) => {
                        if !(b == 9 && c == want && d == want) {
                            ctx.report("C03", "forged-handle-accepted:single-archetype-world", format!("KS::contains({:?}) = {}, to_direct = {}; live handles {:?}", e, c, d, live), inp);
                        }
                    }
                    Err(_) => {
                        if b == 9 && !cfg!(debug_assertions) {
                            ctx.report("C03", "unexpected-panic:single-archetype-world", format!("KS::contains({:?}) panicked although id 9 is the world's archetype", e), inp);
                        }
                    }
                }
            }
        }
    }
    // dynamic direct handles of another world type: their archetype bytes (0, 7, 255) do not exist in KS
    let ver = w.archetype::<Solo>().version();
    for idx in 0..4usize {
        macro_rules! foreign {
            ($B:ident) => {{
                n += 1;
                let d = gecs::__internal::new_entity_direct::<$B>(idx, ver).into_any();
                let inp = Inp { state: "single-archetype world", key: 0, gen: 0, direct_index: idx, archetype: $B::ARCHETYPE_ID };
                let r = catch_unwind(AssertUnwindSafe(|| (w.contains(d), w.to_direct(d).is_some())));
                if let Ok((c, t)) = r {
                    if c || t {
                        ctx.report("C03", "foreign-direct-accepted:single-archetype-world", format!("KS::contains({:?}) = {}, to_direct = {} for a direct handle of another world's archetype", d, c, t), inp);
                    }
                }
            }};
        }
        foreign!(Aa);
        foreign!(Bb);
        foreign!(Cc);
    }
    n
}

fn run_c03(full: bool, threads: usize, ctx: &Ctx) -> serde_json::Value {
    let pos = boundary_positions();
    let gens = [1u32, 2, 3, u32::MAX];
    let mut states = Vec::new();
    let solo_values = c03_solo(ctx);
    states.push(serde_json::json!({"state": "single-archetype world", "values": solo_values}));
    for which in 0..4 {
        let fx = build_state(which);
        // boundary: all 256 bytes x boundary positions (incl. everything around the capacity) x generations, world level included
        for b in 0..=255u32 {
            for p in &pos {
                for g in &gens {
                    // In the debug-assertion build an out-of-range position is a clean panic (debug_assert): tolerate it as a whole.
                    let r = catch_unwind(AssertUnwindSafe(|| c03_value(ctx, &fx, (p << 8) | b, *g, true)));
                    if r.is_err() && !cfg!(debug_assertions) {
                        ctx.report("C03", "unexpected-panic:sweep", format!("lookup of forged value panicked in a release build"), Inp { state: fx.name, key: (p << 8) | b, gen: *g, direct_index: 0, archetype: 0 });
                    }
                }
            }
        }
        if full && !cfg!(debug_assertions) {
            for g in gens {
                // world-level calls for undeclared bytes panic by design; the sweep goes through the world only for declared ids
                par_for_init(threads, sweep_keys(), ctx, || build_state(which), |fx, k| c03_value(ctx, fx, k as u32, g, IDS.contains(&(k as u8))));
            }
        }
        states.push(serde_json::json!({"state": fx.name, "live_handles": fx.live.len()}));
    }
    serde_json::json!({"states": states, "generations": gens, "boundary_positions": pos.len(), "full_sweep": full && !cfg!(debug_assertions),
        "samples": [{"state": "mixed", "key": (1u32 << 8) | 7, "gen": 2}, {"state": "full(cap 4)", "key": (4u32 << 8) | 0, "gen": 1}]})
}

fn arg(args: &[String], name: &str) -> Option<String> {
    args.iter().position(|a| a == name).and_then(|i| args.get(i + 1).cloned())
}

fn main() {
    let args: Vec<String> = std::env::args().collect();
    std::panic::set_hook(Box::new(|_| {}));
    let ctx = Ctx { found: Mutex::new(BTreeMap::new()), stop: AtomicBool::new(false), evals: AtomicU64::new(0), known_f6: AtomicU64::new(0) };
    let threads: usize = arg(&args, "--threads").map(|s| s.parse().unwrap()).unwrap_or(16);
    let full = arg(&args, "--mode").as_deref() == Some("full");
    let t0 = std::time::Instant::now();
    if let Some(b) = arg(&args, "--beacon") {
        beacon::open(&b);
    }
    let detail_t = match args.get(1).map(|s| s.as_str()) {
        Some("c14") => run_c14(full, threads, &ctx),
        Some("c03") => run_c03(full, threads, &ctx),
        Some("replay-c14") => {
            c14_value(&ctx, args[2].parse().unwrap(), args[3].parse().unwrap(), true);
            serde_json::json!({})
        }
        Some("replay-c03") => {
            let which = args[2].parse().unwrap();
            let fx = build_state(which);
            c03_value(&ctx, &fx, args[3].parse().unwrap(), args[4].parse().unwrap(), args.get(5).map(|s| s != "0").unwrap_or(true));
            serde_json::json!({})
        }
        _ => {
            eprintln!("usage: kx c14|c03 --mode boundary|full --out <file>");
            std::process::exit(2);
        }
    };
    flush_evals(&ctx);
    let detail = detail_t;
    let out = serde_json::json!({
        "config": format!("debug_assertions={}", cfg!(debug_assertions)),
        "evaluations": ctx.evals.load(Ordering::Relaxed),
        "known_f6_hits": ctx.known_f6.load(Ordering::Relaxed),
        "violations": ctx.found.lock().unwrap().values().cloned().collect::<Vec<_>>(),
        "detail": detail,
        "wall_s": t0.elapsed().as_secs_f64(),
    });
    match arg(&args, "--out") {
        Some(p) => std::fs::write(p, serde_json::to_string_pretty(&out).unwrap()).unwrap(),
        None => println!("{}", serde_json::to_string_pretty(&out).unwrap()),
    }
    std::process::exit(if ctx.found.lock().unwrap().is_empty() { 0 } else { 1 });
}
