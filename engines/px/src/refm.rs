//! Reference semantics, written independently of the macro sources: the discriminant rule for ids
//! (C15), "disabled = absent" (C16) and the set computation for query matching (C05).

use std::collections::BTreeMap;

/// A decoration is None, one predicate, or several predicates joined by " && " (= several #[cfg] attributes on
/// the item, in that order; the item is enabled iff all of them are true).
pub fn cfg_on(c: &Option<String>, truth: &dyn Fn(&str) -> bool) -> bool {
    c.as_ref().map(|s| s.split(" && ").all(|p| truth(p))).unwrap_or(true)
}

/// The symbolic predicates p0..p3 of the library-driven enumeration are WRITTEN as predicates that are easy to
/// confuse: p1 extends p0 inside the group, p3 extends p2 at top level (each is a token-prefix of the other), and
/// p0/p1 differ from p2/p3 only from the first token on. Their truth values stay independent (the driver supplies them).
pub const PRED_TEXT: [(&str, &str); 4] = [("p0", "any(fa)"), ("p1", "any(fa, fb)"), ("p2", "fa"), ("p3", "fa = \"x\"")];

pub fn pred_text(p: &str) -> &str {
    PRED_TEXT.iter().find(|(k, _)| *k == p).map(|(_, v)| *v).unwrap_or(p)
}

/// Inverse of pred_text on the (whitespace-insensitive) token text the real parser hands back.
pub fn pred_symbol(text: &str) -> String {
    let n = |s: &str| s.chars().filter(|c| !c.is_whitespace()).collect::<String>();
    PRED_TEXT.iter().find(|(_, v)| n(v) == n(text)).map(|(k, _)| k.to_string()).unwrap_or_else(|| text.to_string())
}

pub fn cfg_attrs(c: &Option<String>) -> String {
    c.as_ref().map(|s| s.split(" && ").map(|p| format!("#[cfg({})] ", pred_text(p))).collect::<String>()).unwrap_or_default()
}

pub fn cfg_preds(c: &Option<String>) -> Vec<String> {
    c.as_ref().map(|s| s.split(" && ").map(|p| p.to_string()).collect()).unwrap_or_default()
}

#[derive(Clone, Debug, PartialEq, Eq)]
pub struct RComp {
    pub name: String,
    pub id: Option<u8>,
    /// None = no cfg attribute; Some(p) = #[cfg(<predicate p>)]
    pub cfg: Option<String>,
}

#[derive(Clone, Debug, PartialEq, Eq)]
pub struct RArch {
    pub name: String,
    pub id: Option<u8>,
    pub cfg: Option<String>,
    pub comps: Vec<RComp>,
}

#[derive(Clone, Debug, PartialEq, Eq, serde::Serialize)]
pub struct WorldIds {
    /// (archetype name, archetype id, [(component name, component id)])
    pub archs: Vec<(String, u8, Vec<(String, u8)>)>,
}

#[derive(Clone, Debug, PartialEq, Eq)]
pub enum IdErr {
    Exceeds255(String),
    Duplicate(u8, String),
}

impl IdErr {
    pub fn message(&self) -> String {
        match self {
            IdErr::Exceeds255(_) => "attribute id may not exceed 255".to_string(),
            IdErr::Duplicate(id, first) => format!("attribute id {} is already assigned to {}", id, first),
        }
    }
}

fn next_id(explicit: Option<u8>, prev: Option<u8>, name: &str, used: &mut BTreeMap<u8, String>) -> Result<u8, IdErr> {
    let id = match (explicit, prev) {
        (Some(x), _) => x,
        (None, Some(255)) => return Err(IdErr::Exceeds255(name.to_string())),
        (None, Some(p)) => p + 1,
        (None, None) => 0,
    };
    if let Some(first) = used.get(&id) {
        return Err(IdErr::Duplicate(id, first.clone()));
    }
    used.insert(id, name.to_string());
    Ok(id)
}

/// The enum-discriminant rule over ENABLED items only, first error in declaration order.
pub fn assign_ids(archs: &[RArch], truth: &dyn Fn(&str) -> bool) -> Result<WorldIds, IdErr> {
    let on = |c: &Option<String>| cfg_on(c, truth);
    let mut out = Vec::new();
    let mut used = BTreeMap::new();
    let mut prev = None;
    for a in archs.iter().filter(|a| on(&a.cfg)) {
        let id = next_id(a.id, prev, &a.name, &mut used)?;
        prev = Some(id);
        let mut cused = BTreeMap::new();
        let mut cprev = None;
        let mut comps = Vec::new();
        for c in a.comps.iter().filter(|c| on(&c.cfg)) {
            let cid = next_id(c.id, cprev, &c.name, &mut cused)?;
            cprev = Some(cid);
            comps.push((c.name.clone(), cid));
        }
        out.push((a.name.clone(), id, comps));
    }
    Ok(WorldIds { archs: out })
}

pub fn decl_text(world_name: &str, archs: &[RArch]) -> String {
    let mut s = format!("ecs_name!({});\n", world_name);
    for a in archs {
        s.push_str(&cfg_attrs(&a.cfg));
        if let Some(id) = a.id {
            s.push_str(&format!("#[archetype_id({})] ", id));
        }
        s.push_str(&format!("ecs_archetype!({}", a.name));
        for c in &a.comps {
            s.push_str(", ");
            s.push_str(&cfg_attrs(&c.cfg));
            if let Some(id) = c.id {
                s.push_str(&format!("#[component_id({})] ", id));
            }
            s.push_str(&c.name);
        }
        s.push_str(");\n");
    }
    s
}

// ---------------------------------------------------------------------------------------------
// Query matching
// ---------------------------------------------------------------------------------------------

#[derive(Clone, Debug, PartialEq, Eq, Hash, PartialOrd, Ord, serde::Serialize)]
pub enum PType {
    Comp(String),
    OneOf(Vec<String>),
    Entity(String),
    EntityWild,
    EntityAny,
    Direct(String),
    DirectWild,
    DirectAny,
}

#[derive(Clone, Debug, PartialEq, Eq, Hash, PartialOrd, Ord, serde::Serialize)]
pub struct Param {
    pub ty: PType,
    pub is_mut: bool,
    pub cfg: Option<String>,
}

impl Param {
    pub fn text(&self, name: &str) -> String {
        let ty = match &self.ty {
            PType::Comp(c) => c.clone(),
            PType::OneOf(v) => format!("OneOf<{}>", v.join(", ")),
            PType::Entity(a) => format!("Entity<{}>", a),
            PType::EntityWild => "Entity<_>".into(),
            PType::EntityAny => "EntityAny".into(),
            PType::Direct(a) => format!("EntityDirect<{}>", a),
            PType::DirectWild => "EntityDirect<_>".into(),
            PType::DirectAny => "EntityDirectAny".into(),
        };
        format!("{}{}: &{}{}", cfg_attrs(&self.cfg), name, if self.is_mut { "mut " } else { "" }, ty)
    }
}

pub fn params_text(params: &[Param]) -> String {
    params.iter().enumerate().map(|(i, p)| p.text(&format!("p{}", i))).collect::<Vec<_>>().join(", ")
}

#[derive(Clone, Debug, PartialEq, Eq, serde::Serialize)]
pub enum QExpect {
    /// (archetype name, bound type text of every ENABLED parameter) for every matching archetype, declaration order
    Matches(Vec<(String, Vec<String>)>),
    NoMatch,
    Ambiguous { arch: String, first: String, second: String },
    /// known finding F7: a cfg attribute on a OneOf parameter is rejected outright
    CfgOnOneOf,
}

/// Which archetypes does the parameter list select, and what does each parameter bind to there?
/// Disabled parameters behave as absent.
pub fn match_query(world: &WorldIds, params: &[Param], truth: &dyn Fn(&str) -> bool) -> QExpect {
    // The real macro refuses cfg on OneOf before looking at the predicate (known finding F7).
    if params.iter().any(|p| matches!(p.ty, PType::OneOf(_)) && p.cfg.is_some()) {
        return QExpect::CfgOnOneOf;
    }
    let enabled: Vec<&Param> = params.iter().filter(|p| cfg_on(&p.cfg, truth)).collect();
    // a OneOf that hits two columns of SOME archetype of the world makes the query ill-formed
    for (aname, _, comps) in &world.archs {
        for p in &enabled {
            if let PType::OneOf(list) = &p.ty {
                let hits: Vec<&String> = list.iter().filter(|c| comps.iter().any(|(n, _)| n == *c)).collect();
                if hits.len() >= 2 {
                    return QExpect::Ambiguous { arch: aname.clone(), first: hits[0].clone(), second: hits[1].clone() };
                }
            }
        }
    }
    let mut out = Vec::new();
    for (aname, _, comps) in &world.archs {
        let has = |c: &String| comps.iter().any(|(n, _)| n == c);
        let mut bound = Vec::new();
        let mut ok = true;
        for p in &enabled {
            let b = match &p.ty {
                PType::Comp(c) => has(c).then(|| c.clone()),
                PType::OneOf(list) => list.iter().find(|c| has(c)).cloned(),
                PType::Entity(a) => (a == aname).then(|| format!("Entity < {} >", a)),
                PType::Direct(a) => (a == aname).then(|| format!("EntityDirect < {} >", a)),
                PType::EntityWild => Some(format!("Entity < {} >", aname)),
                PType::DirectWild => Some(format!("EntityDirect < {} >", aname)),
                PType::EntityAny => Some("EntityAny".into()),
                PType::DirectAny => Some("EntityDirectAny".into()),
            };
            match b {
                Some(b) => bound.push(b),
                None => {
                    ok = false;
                    break;
                }
            }
        }
        if ok {
            out.push((aname.clone(), bound));
        }
    }
    if out.is_empty() {
        QExpect::NoMatch
    } else {
        QExpect::Matches(out)
    }
}
