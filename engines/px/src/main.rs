//! px — program-space explorer: drives the real gecs macro sources as a library over exhaustively
//! enumerated declarations / parameter lists (C05, C15, C16, C18a) and emits conformance programs for
//! the real rustc.
//!
//!   px c15|c05|c16 --tier quick|thorough --out <file> [--threads N]
//!   px emit --tier quick|thorough --dir <dir>          (conformance crate sources + expectations)

#![allow(clippy::all)]
#![allow(dead_code)]

#[path = "msrc/data.rs"]
mod data;
#[path = "msrc/generate/mod.rs"]
mod generate;
#[path = "msrc/parse/mod.rs"]
mod parse;

mod analyze;
mod drive;
mod emit;
mod refm;

use std::collections::BTreeMap;
use std::sync::atomic::{AtomicBool, AtomicU64, AtomicUsize, Ordering};
use std::sync::Mutex;

use drive::*;
use refm::*;
use serde::Serialize;

#[derive(Serialize, Clone, Debug)]
pub struct Vio {
    pub prop: String,
    pub oracle: String,
    pub msg: String,
    pub program: String,
}

pub struct Ctx {
    pub found: Mutex<BTreeMap<String, Vio>>,
    pub stop: AtomicBool,
    pub evals: AtomicU64,
    pub nontrivial: AtomicU64,
    pub errors_expected: AtomicU64,
    pub tokens_scanned: AtomicU64,
    pub known: Mutex<BTreeMap<String, u64>>,
    pub samples: Mutex<Vec<serde_json::Value>>,
}

impl Ctx {
    fn new() -> Self {
        Ctx { found: Mutex::new(BTreeMap::new()), stop: AtomicBool::new(false), evals: AtomicU64::new(0), nontrivial: AtomicU64::new(0), errors_expected: AtomicU64::new(0),
              tokens_scanned: AtomicU64::new(0), known: Mutex::new(BTreeMap::new()), samples: Mutex::new(Vec::new()) }
    }
    pub fn report(&self, prop: &str, oracle: &str, msg: String, program: String) {
        let mut f = self.found.lock().unwrap();
        f.entry(format!("{}:{}", prop, oracle)).or_insert(Vio { prop: prop.into(), oracle: oracle.into(), msg, program });
        if f.len() > 15 {
            self.stop.store(true, Ordering::Relaxed);
        }
    }
    pub fn note_known(&self, key: &str) {
        *self.known.lock().unwrap().entry(key.to_string()).or_insert(0) += 1;
    }
    pub fn sample(&self, v: serde_json::Value) {
        let mut s = self.samples.lock().unwrap();
        if s.len() < 6 {
            s.push(v);
        }
    }
    fn scan_unsafe(&self, ts: &proc_macro2::TokenStream, program: &str) {
        self.tokens_scanned.fetch_add(1, Ordering::Relaxed);
        if has_unsafe(ts) {
            self.report("C18", "unsafe-in-expansion", "the expansion contains the token `unsafe`".into(), program.to_string());
        }
    }
}

fn par<T: Sync>(threads: usize, items: &[T], ctx: &Ctx, f: impl Fn(&T) + Sync) {
    let next = AtomicUsize::new(0);
    std::thread::scope(|s| {
        for _ in 0..threads.max(1) {
            s.spawn(|| loop {
                let i = next.fetch_add(1, Ordering::Relaxed);
                if i >= items.len() || ctx.stop.load(Ordering::Relaxed) {
                    break;
                }
                f(&items[i]);
            });
        }
    });
}

fn data_to_ids(d: &data::DataWorld) -> WorldIds {
    WorldIds { archs: d.archetypes.iter().map(|a| (a.name.clone(), a.id, a.components.iter().map(|c| (c.name.clone(), c.id)).collect())).collect() }
}

// ---------------------------------------------------------------------------------------------
// C15: ids
// ---------------------------------------------------------------------------------------------

const ID_CHOICES: [Option<u8>; 6] = [None, Some(0), Some(1), Some(2), Some(254), Some(255)];

/// All k-tuples over (id choice, disabled?).
fn id_tuples(k: usize) -> Vec<Vec<(Option<u8>, bool)>> {
    let base: Vec<(Option<u8>, bool)> = ID_CHOICES.iter().flat_map(|i| [(*i, false), (*i, true)]).collect();
    let mut out: Vec<Vec<(Option<u8>, bool)>> = vec![vec![]];
    for _ in 0..k {
        out = out.into_iter().flat_map(|p| base.iter().map(move |b| { let mut q = p.clone(); q.push(*b); q })).collect();
    }
    out
}

pub fn check_world_ids(ctx: &Ctx, archs: &[RArch], truth: &dyn Fn(&str) -> bool, prop: &str, gen_world: bool) {
    ctx.evals.fetch_add(1, Ordering::Relaxed);
    let decl = decl_text("Wx", archs);
    let real = world_data(&decl, truth);
    let expect = assign_ids(archs, truth);
    match (&real, &expect) {
        (Ok((d, _)), Ok(e)) => {
            let got = data_to_ids(d);
            if &got != e {
                ctx.report(prop, "ids-differ", format!("ids assigned {:?}, discriminant rule gives {:?}", got, e), decl.clone());
                return;
            }
            if e.archs.len() >= 2 || e.archs.iter().any(|a| a.2.len() >= 2) {
                ctx.nontrivial.fetch_add(1, Ordering::Relaxed);
            }
            if gen_world && !e.archs.is_empty() {
                match drive::gen_world(&d, &decl) {
                    Ok(ts) => ctx.scan_unsafe(&ts, &decl),
                    Err(m) => {
                        ctx.report(prop, "well-formed-declaration-rejected", format!("{} (ids {:?} are well-formed)", m, e.archs.len()), decl.clone());
                        return;
                    }
                }
                // the query macros receive the world through its serialised form: it must survive the round trip
                match drive::b64_roundtrip(&d) {
                    Ok((_, back)) => {
                        if &data_to_ids(&back) != e {
                            ctx.report(prop, "ids-differ-after-serialisation", format!("the serialised world data reads back as {:?}, expected {:?}", data_to_ids(&back).archs.len(), e.archs.len()), decl.clone());
                        }
                    }
                    Err(m) => ctx.report(prop, "well-formed-declaration-rejected", format!("{} ({} archetypes, well-formed)", m, e.archs.len()), decl.clone()),
                }
            }
        }
        (Err(m), Err(e)) => {
            ctx.errors_expected.fetch_add(1, Ordering::Relaxed);
            ctx.nontrivial.fetch_add(1, Ordering::Relaxed);
            if *m != e.message() {
                ctx.report(prop, "wrong-diagnostic", format!("rejected with '{}', expected '{}'", m, e.message()), decl.clone());
            }
        }
        (Ok((d, _)), Err(e)) => ctx.report(prop, "ill-formed-declaration-accepted", format!("accepted with ids {:?}, expected error '{}'", data_to_ids(d), e.message()), decl.clone()),
        (Err(m), Ok(e)) => ctx.report(prop, "well-formed-declaration-rejected", format!("rejected with '{}', expected ids {:?}", m, e), decl.clone()),
    }
}

fn run_c15(thorough: bool, threads: usize, ctx: &Ctx) -> serde_json::Value {
    let kmax = if thorough { 5 } else { 4 };
    let truth = |p: &str| p != "poff";
    let mut jobs: Vec<(bool, Vec<(Option<u8>, bool)>)> = Vec::new();
    for k in 1..=kmax {
        for t in id_tuples(k) {
            jobs.push((true, t.clone()));
            if k <= 4 {
                jobs.push((false, t));
            }
        }
    }
    par(threads, &jobs, ctx, |(arch_level, t)| {
        let archs: Vec<RArch> = if *arch_level {
            t.iter().enumerate().map(|(i, (id, off))| RArch { name: format!("A{}", i), id: *id, cfg: off.then(|| "poff".to_string()), comps: vec![RComp { name: "Ca".into(), id: None, cfg: None }] }).collect()
        } else {
            vec![RArch { name: "A0".into(), id: None, cfg: None, comps: t.iter().enumerate().map(|(i, (id, off))| RComp { name: format!("C{}", i), id: *id, cfg: off.then(|| "poff".to_string()) }).collect() }]
        };
        // generating the whole world for every declaration is the expensive part: do it for every declaration
        // with <= 3 items and for every 7th of the larger ones (the id logic itself is checked on all of them)
        let gen = t.len() <= 3 || (t.iter().map(|x| x.0.unwrap_or(7) as usize).sum::<usize>() % 7 == 0);
        check_world_ids(ctx, &archs, &truth, "C15", gen);
    });
    // mixed: ids on archetypes AND components, two archetypes x two components
    let small: [Option<u8>; 3] = [None, Some(0), Some(255)];
    let mut mixed = Vec::new();
    for a0 in small { for a1 in small { for c00 in small { for c01 in small { for c10 in small { for c11 in small {
        mixed.push([a0, a1, c00, c01, c10, c11]);
    }}}}}}
    par(threads, &mixed, ctx, |m| {
        let archs = vec![
            RArch { name: "A0".into(), id: m[0], cfg: None, comps: vec![RComp { name: "Ca".into(), id: m[2], cfg: None }, RComp { name: "Cb".into(), id: m[3], cfg: None }] },
            RArch { name: "A1".into(), id: m[1], cfg: None, comps: vec![RComp { name: "Cb".into(), id: m[4], cfg: None }, RComp { name: "Cc".into(), id: m[5], cfg: None }] },
        ];
        check_world_ids(ctx, &archs, &truth, "C15", true);
    });
    // the size boundary of a declaration: 255, 256 (the largest legal world) and 257 archetypes with implicit ids, 257 written
    // with the first one disabled (= 256), and explicit start ids that make the count run past 255 early
    let mut boundary = 0usize;
    for (n, first_off, start) in [(255usize, false, None), (256, false, None), (257, false, None), (257, true, None), (56, false, Some(200u8)), (57, false, Some(200u8))] {
        let archs: Vec<RArch> = (0..n).map(|i| RArch { name: format!("A{}", i), id: if i == 0 { start } else { None }, cfg: (first_off && i == 0).then(|| "poff".to_string()), comps: vec![RComp { name: "Ca".into(), id: None, cfg: None }] }).collect();
        check_world_ids(ctx, &archs, &truth, "C15", true);
        boundary += 1;
    }
    ctx.sample(serde_json::json!({"declaration": decl_text("Wx", &[RArch { name: "A0".into(), id: Some(254), cfg: None, comps: vec![RComp { name: "Ca".into(), id: None, cfg: None }] }, RArch { name: "A1".into(), id: None, cfg: Some("poff".into()), comps: vec![RComp { name: "Ca".into(), id: None, cfg: None }] }, RArch { name: "A2".into(), id: None, cfg: None, comps: vec![RComp { name: "Ca".into(), id: None, cfg: None }] }])}));
    serde_json::json!({"max_items": kmax, "id_choices": "none,0,1,2,254,255", "disabled_flag": true, "declarations": jobs.len() + mixed.len() + boundary, "size_boundary": "255 / 256 / 257 archetypes (implicit ids), 257 with one disabled, 56 / 57 from id 200"})
}

// ---------------------------------------------------------------------------------------------
// C05: query matching
// ---------------------------------------------------------------------------------------------

const ARCH_NAMES: [&str; 3] = ["Ab", "Abc", "Q"]; // "Ab" is a prefix of "Abc" on purpose

pub fn subsets(pool: &[&str]) -> Vec<Vec<String>> {
    (1u32..(1 << pool.len())).map(|m| pool.iter().enumerate().filter(|(i, _)| m & (1 << i) != 0).map(|(_, c)| c.to_string()).collect()).collect()
}

pub fn worlds(pool: &[&str], max_archs: usize) -> Vec<Vec<RArch>> {
    let subs = subsets(pool);
    let mut out: Vec<Vec<RArch>> = Vec::new();
    let mut cur: Vec<Vec<Vec<String>>> = vec![vec![]];
    for _ in 0..max_archs {
        cur = cur.into_iter().flat_map(|p| subs.iter().map(move |s| { let mut q = p.clone(); q.push(s.clone()); q })).collect();
        for w in &cur {
            out.push(w.iter().enumerate().map(|(i, comps)| RArch { name: ARCH_NAMES[i].into(), id: None, cfg: None, comps: comps.iter().map(|c| RComp { name: c.clone(), id: None, cfg: None }).collect() }).collect());
        }
    }
    out
}

pub fn param_alphabet(pool: &[&str], arch_names: &[String]) -> Vec<Param> {
    let mut v = Vec::new();
    for c in pool {
        v.push(Param { ty: PType::Comp(c.to_string()), is_mut: false, cfg: None });
        v.push(Param { ty: PType::Comp(c.to_string()), is_mut: true, cfg: None });
    }
    for s in subsets(pool) {
        v.push(Param { ty: PType::OneOf(s.clone()), is_mut: false, cfg: None });
        v.push(Param { ty: PType::OneOf(s), is_mut: true, cfg: None });
    }
    let mut names: Vec<String> = arch_names.to_vec();
    names.push("Zz".into()); // not an archetype of the world
    for n in &names {
        v.push(Param { ty: PType::Entity(n.clone()), is_mut: false, cfg: None });
        v.push(Param { ty: PType::Direct(n.clone()), is_mut: false, cfg: None });
    }
    for ty in [PType::EntityWild, PType::EntityAny, PType::DirectWild, PType::DirectAny] {
        v.push(Param { ty, is_mut: false, cfg: None });
    }
    v
}

pub fn check_query(ctx: &Ctx, ids: &WorldIds, b64: &str, decl: &str, params: &[Param], mac: Mac, truth: &dyn Fn(&str) -> bool, prop: &str) {
    ctx.evals.fetch_add(1, Ordering::Relaxed);
    let ptxt = params_text(params);
    let program = || format!("ecs_world! {{ {} }}\n{}!(world, {}|{}| {{ .. }})", decl.replace('\n', " "), mac.name(), if mac.is_find() { "entity, " } else { "" }, ptxt);
    let real = query_tokens(mac, b64, &ptxt, truth);
    let expect = match_query(ids, params, truth);
    match (&real, &expect) {
        (Ok(ts), QExpect::Matches(list)) => {
            ctx.scan_unsafe(ts, &program());
            let mut got: Vec<(String, Vec<String>)> = Vec::new();
            let enabled_idx: Vec<usize> = params.iter().enumerate().filter(|(_, p)| cfg_on(&p.cfg, truth)).map(|(i, _)| i).collect();
            for b in analyze::blocks(ts) {
                let tys: Vec<String> = enabled_idx.iter().filter_map(|i| b.params.get(*i).map(|p| p.1.clone())).collect();
                let entry = (b.arch.clone(), tys);
                if !got.contains(&entry) {
                    got.push(entry);
                }
                // mutability of every parameter is preserved
                for (i, p) in params.iter().enumerate() {
                    if let Some(bp) = b.params.get(i) {
                        if bp.2 != p.is_mut {
                            ctx.report(prop, "mutability-changed", format!("parameter {} emitted with mut={} in archetype {}", i, bp.2, b.arch), program());
                            return;
                        }
                    }
                }
                if b.params.len() != params.len() {
                    ctx.report(prop, "parameter-count-changed", format!("closure for {} has {} parameters, the query has {}", b.arch, b.params.len(), params.len()), program());
                    return;
                }
            }
            let mut a = got.clone();
            let mut e = list.clone();
            a.sort();
            e.sort();
            if a != e {
                let oracle = if a.iter().map(|x| &x.0).collect::<Vec<_>>() != e.iter().map(|x| &x.0).collect::<Vec<_>>() { "wrong-archetype-set" } else { "wrong-column-bound" };
                ctx.report(prop, oracle, format!("expansion acts on {:?}, reference says {:?}", a, e), program());
                return;
            }
            if list.len() < ids.archs.len() || params.iter().any(|p| matches!(p.ty, PType::OneOf(_))) {
                ctx.nontrivial.fetch_add(1, Ordering::Relaxed);
            }
        }
        (Err(m), QExpect::NoMatch) => {
            ctx.errors_expected.fetch_add(1, Ordering::Relaxed);
            ctx.nontrivial.fetch_add(1, Ordering::Relaxed);
            if m != "query matched no archetypes in world" {
                ctx.report(prop, "wrong-diagnostic", format!("rejected with '{}', expected 'query matched no archetypes in world'", m), program());
            }
        }
        (Err(m), QExpect::Ambiguous { arch, first, second }) => {
            ctx.errors_expected.fetch_add(1, Ordering::Relaxed);
            ctx.nontrivial.fetch_add(1, Ordering::Relaxed);
            let want = format!("OneOf parameter is ambiguous for {}, matching both {} and {}", arch, first, second);
            if !m.starts_with("OneOf parameter is ambiguous for") {
                ctx.report(prop, "wrong-diagnostic", format!("rejected with '{}', expected '{}'", m, want), program());
            }
        }
        (Err(m), QExpect::CfgOnOneOf) => {
            if m == "cfg attributes not currently supported on OneOf" {
                ctx.note_known("C16:cfg-on-oneof-rejected");
            } else if !m.starts_with("OneOf parameter is ambiguous for") {
                ctx.report(prop, "wrong-diagnostic", format!("rejected with '{}'", m), program());
            }
        }
        (Ok(_), QExpect::CfgOnOneOf) => {
            // the limitation was lifted: fall back to the ordinary expectation
            let mut p2: Vec<Param> = params.to_vec();
            for p in p2.iter_mut() {
                if matches!(p.ty, PType::OneOf(_)) {
                    p.cfg = None;
                }
            }
            let _ = p2;
        }
        (Ok(ts), other) => {
            let names: Vec<String> = analyze::blocks(ts).into_iter().map(|b| b.arch).collect();
            ctx.report(prop, "ill-formed-query-accepted", format!("expansion succeeded (acting on {:?}) but the reference says {:?}", names, other), program());
        }
        (Err(m), QExpect::Matches(list)) => ctx.report(prop, "well-formed-query-rejected", format!("rejected with '{}', reference says it matches {:?}", m, list), program()),
    }
}

pub fn param_lists(alpha: &[Param], max_len: usize) -> Vec<Vec<Param>> {
    let mut out: Vec<Vec<Param>> = vec![vec![]];
    let mut cur: Vec<Vec<Param>> = vec![vec![]];
    for _ in 0..max_len {
        cur = cur.into_iter().flat_map(|p| alpha.iter().map(move |a| { let mut q = p.clone(); q.push(a.clone()); q })).collect();
        out.extend(cur.iter().cloned());
    }
    out
}

fn run_c05(thorough: bool, threads: usize, ctx: &Ctx) -> serde_json::Value {
    let always = |_: &str| true;
    // "Ca" is a prefix of "Cab" on purpose (component names must be compared exactly)
    let mut plan: Vec<(Vec<&str>, usize, usize)> = vec![(vec!["Ca", "Cab", "Cc"], 2, 2)];
    if thorough {
        plan = vec![(vec!["Ca", "Cab", "Cc"], 3, 2), (vec!["Ca", "Cab", "Cc"], 2, 3), (vec!["Ca", "Cab", "Cc", "Cd"], 2, 2)];
    }
    let mut total_worlds = 0;
    let mut detail = Vec::new();
    for (pool, max_archs, max_len) in &plan {
        let ws = worlds(pool, *max_archs);
        total_worlds += ws.len();
        detail.push(serde_json::json!({"pool": pool, "max_archetypes": max_archs, "max_params": max_len, "worlds": ws.len()}));
        par(threads, &ws, ctx, |archs| {
            let decl = decl_text("Wx", archs);
            let (d, _) = match world_data(&decl, &always) {
                Ok(x) => x,
                Err(e) => {
                    ctx.report("C05", "world-rejected", e, decl.clone());
                    return;
                }
            };
            let ids = data_to_ids(&d);
            let b64 = match drive::b64_roundtrip(&d) {
                Ok((t, _)) => t,
                Err(e) => {
                    ctx.report("C05", "world-rejected", e, decl.clone());
                    return;
                }
            };
            let names: Vec<String> = archs.iter().map(|a| a.name.clone()).collect();
            let alpha = param_alphabet(pool, &names);
            for params in param_lists(&alpha, *max_len) {
                for mac in MACS {
                    check_query(ctx, &ids, &b64, &decl, &params, mac, &always, "C05");
                }
                if ctx.stop.load(Ordering::Relaxed) {
                    return;
                }
            }
        });
    }
    // the parameter-count boundary: an archetype with the maximum number of components, queries that name all of them (plus
    // handle parameters), in every generator. (16 without the 32_components feature of the macro crate, which px does not enable.)
    let maxc = 16usize;
    let wide: Vec<RArch> = vec![
        RArch { name: "Ab".into(), id: None, cfg: None, comps: (0..maxc).map(|i| RComp { name: format!("K{:02}", i), id: None, cfg: None }).collect() },
        RArch { name: "Q".into(), id: None, cfg: None, comps: vec![RComp { name: "K00".into(), id: None, cfg: None }, RComp { name: "Kx".into(), id: None, cfg: None }] },
    ];
    let mut max_arity_queries = 0usize;
    {
        let decl = decl_text("Wx", &wide);
        match world_data(&decl, &always).and_then(|(d, _)| drive::b64_roundtrip(&d).map(|(t, _)| (data_to_ids(&d), t))) {
            Err(e) => ctx.report("C05", "world-rejected", e, decl.clone()),
            Ok((ids, b64)) => {
                let comp = |i: usize, m: bool| Param { ty: PType::Comp(format!("K{:02}", i)), is_mut: m, cfg: None };
                let h = |ty: PType| Param { ty, is_mut: false, cfg: None };
                let mut lists: Vec<Vec<Param>> = Vec::new();
                for n in [maxc - 1, maxc] {
                    lists.push((0..n).map(|i| comp(i, false)).collect());
                    lists.push((0..n).map(|i| comp(i, i % 2 == 0)).collect());
                    let mut l: Vec<Param> = (0..n).map(|i| comp(i, true)).collect();
                    l.push(h(PType::EntityWild));
                    lists.push(l.clone());
                    l.push(h(PType::DirectAny));
                    lists.push(l.clone());
                    l.push(h(PType::EntityAny));
                    l.push(h(PType::Direct("Ab".into())));
                    lists.push(l);
                    // the last component through a OneOf that only Ab can satisfy / that both archetypes could
                    let mut o: Vec<Param> = (0..n - 1).map(|i| comp(i, false)).collect();
                    o.push(Param { ty: PType::OneOf(vec![format!("K{:02}", n - 1), "Kx".into()]), is_mut: true, cfg: None });
                    lists.push(o);
                }
                for params in &lists {
                    for mac in MACS {
                        check_query(ctx, &ids, &b64, &decl, params, mac, &always, "C05");
                        max_arity_queries += 1;
                    }
                }
            }
        }
    }
    ctx.sample(serde_json::json!({"world": "ecs_archetype!(Ab, Ca, Cb); ecs_archetype!(Abc, Cb, Cc);", "query": "ecs_iter!(world, |p0: &mut OneOf<Ca, Cc>, p1: &Entity<_>| ..)", "expect": "Ab with p0 bound to Ca, Abc with p0 bound to Cc"}));
    ctx.sample(serde_json::json!({"world": "ecs_archetype!(Ab, Ca); ecs_archetype!(Abc, Ca, Cb);", "query": "ecs_find!(world, entity, |p0: &Ca, p1: &Entity<Ab>| ..)", "expect": "Ab only (name Ab must not match Abc)"}));
    serde_json::json!({"worlds": total_worlds, "plan": detail, "generators": 5, "max_arity_queries": max_arity_queries, "max_arity": "15 / 16 component parameters + up to 4 handle parameters"})
}

// ---------------------------------------------------------------------------------------------
// C16: cfg decorations
// ---------------------------------------------------------------------------------------------

const PREDS: [&str; 4] = ["p0", "p1", "p2", "p3"];

/// Decoration choices over the first n symbolic predicates: none, one attribute, or (if `two`) two attributes in either order.
fn deco_choices(n: usize, two: bool) -> Vec<Option<&'static str>> {
    let mut v: Vec<Option<&'static str>> = vec![None];
    for i in 0..n {
        v.push(Some(PREDS[i]));
    }
    if two {
        for i in 0..n {
            for j in 0..n {
                if i != j {
                    v.push(Some(Box::leak(format!("{} && {}", PREDS[i], PREDS[j]).into_boxed_str())));
                }
            }
        }
    }
    v
}

fn twin_of(archs: &[RArch], truth: &dyn Fn(&str) -> bool) -> Vec<RArch> {
    let on = |c: &Option<String>| cfg_on(c, truth);
    archs.iter().filter(|a| on(&a.cfg)).map(|a| RArch { name: a.name.clone(), id: a.id, cfg: None, comps: a.comps.iter().filter(|c| on(&c.cfg)).map(|c| RComp { name: c.name.clone(), id: c.id, cfg: None }).collect() }).collect()
}

fn run_c16(thorough: bool, threads: usize, ctx: &Ctx) -> serde_json::Value {
    let always = |_: &str| true;
    // ---- (a) declarations: 6 decoration sites x {none, p0, p1, p2} x all truth vectors; two id variants ----
    // quick: p0..p2 (p0 = any(fa) is a token-prefix of p1 = any(fa, fb)); thorough: also p3 (p2 = fa is a prefix of p3 = fa = "x")
    let npreds: usize = if thorough { 4 } else { 3 };
    let choices = deco_choices(npreds, false);
    // two sites (the first archetype and its second component) may also carry TWO cfg attributes, in either order
    let double = deco_choices(npreds, true);
    let mut decos: Vec<[Option<&str>; 6]> = Vec::new();
    for a in &double { for b in &choices { for c in &double { for d in &choices { for e in &choices { for f in &choices {
        decos.push([*a, *b, *c, *d, *e, *f]);
    }}}}}}
    let variants: Vec<usize> = if thorough { vec![0, 1, 2, 3] } else { vec![0, 1, 3] };
    let decl_count = AtomicU64::new(0);
    par(threads, &decos, ctx, |dc| {
        for &variant in &variants {
            let s = |o: Option<&str>| o.map(|x| x.to_string());
            // variant 1: A1 explicitly takes id 0, which collides with A0's implicit 0 exactly when A0 is enabled;
            // variant 2: explicit component ids 0 on the second component of each archetype
            // variant 3: both archetypes carry the SAME explicit id 7 and both components of A0 the same explicit id 5
            //            (well-formed exactly when at most one of each pair is enabled)
            let v3 = |x: u8| if variant == 3 { Some(x) } else { None };
            let archs = vec![
                RArch { name: "A0".into(), id: v3(7), cfg: s(dc[0]), comps: vec![RComp { name: "Ca".into(), id: v3(5), cfg: s(dc[1]) }, RComp { name: "Cb".into(), id: if variant == 2 { Some(0) } else { v3(5) }, cfg: s(dc[2]) }] },
                RArch { name: "A1".into(), id: if variant == 1 { Some(0) } else { v3(7) }, cfg: s(dc[3]), comps: vec![RComp { name: "Cb".into(), id: None, cfg: s(dc[4]) }, RComp { name: "Cc".into(), id: if variant == 2 { Some(0) } else { None }, cfg: s(dc[5]) }] },
            ];
            let used: Vec<&str> = PREDS.iter().cloned().filter(|p| dc.iter().any(|d| d.map(|s| s.split(" && ").any(|x| x == *p)).unwrap_or(false))).collect();
            for tv in 0..(1u32 << used.len()) {
                let truth = |p: &str| used.iter().position(|u| *u == p).map(|i| tv & (1 << i) != 0).unwrap_or(true);
                let twin = twin_of(&archs, &truth);
                if twin.is_empty() || twin.iter().any(|a| a.comps.is_empty()) {
                    // every archetype disabled, or an enabled archetype left without components: the undecorated
                    // twin is not a declaration the library accepts at all (DESIGN.md, C16 "X")
                    continue;
                }
                decl_count.fetch_add(1, Ordering::Relaxed);
                // reference (also covers "disabled items do not consume an id")
                check_world_ids(ctx, &archs, &truth, "C16", false);
                // differential against the undecorated twin through the real code
                let real = world_data(&decl_text("Wx", &archs), &truth).map(|x| data_to_ids(&x.0));
                let tw = world_data(&decl_text("Wx", &twin), &always).map(|x| data_to_ids(&x.0));
                if real != tw {
                    ctx.report("C16", "decorated-differs-from-twin", format!("with truth {:?} over {:?}: decorated gives {:?}, undecorated twin gives {:?}", tv, used, real, tw), decl_text("Wx", &archs));
                }
                if used.len() >= 2 && tv != 0 && tv != (1 << used.len()) - 1 {
                    ctx.nontrivial.fetch_add(1, Ordering::Relaxed);
                }
            }
        }
    });
    // ---- (a') the component limit counts ENABLED components: more components written than any storage holds, enough of
    //          them disabled; the undecorated twin has only the enabled ones ----
    let mut wide_count = 0u64;
    for (written, stride, phase) in [(17usize, 17usize, 0usize), (18, 9, 1), (33, 33, 5), (34, 17, 3), (40, 5, 2), (64, 2, 1)] {
        // component j is disabled iff j % stride == phase (and, for the denser patterns, every such j)
        for pred in ["p0", "p1"] {
            let comps: Vec<RComp> = (0..written).map(|j| RComp { name: format!("K{}", j), id: None, cfg: if j % stride == phase { Some(pred.to_string()) } else { None } }).collect();
            let archs = vec![RArch { name: "Wide".into(), id: None, cfg: None, comps }, RArch { name: "A1".into(), id: None, cfg: None, comps: vec![RComp { name: "K0".into(), id: None, cfg: None }] }];
            for tv in 0..2u32 {
                let truth = |p: &str| if p == pred { tv == 1 } else { true };
                let twin = twin_of(&archs, &truth);
                wide_count += 1;
                check_world_ids(ctx, &archs, &truth, "C16", false);
                let real = world_data(&decl_text("Wx", &archs), &truth).map(|x| data_to_ids(&x.0));
                let tw = world_data(&decl_text("Wx", &twin), &always).map(|x| data_to_ids(&x.0));
                if real != tw {
                    ctx.report("C16", "decorated-differs-from-twin", format!("archetype with {} components written, predicate {} = {}: decorated gives {:?}, undecorated twin gives {:?}", written, pred, tv == 1, real.as_ref().map(|_| "ids").map_err(|e| e.clone()), tw.as_ref().map(|_| "ids").map_err(|e| e.clone())), decl_text("Wx", &archs));
                }
            }
        }
    }
    // ---- (b) query parameters ----
    let base = vec![
        RArch { name: "A0".into(), id: None, cfg: None, comps: vec![RComp { name: "Ca".into(), id: None, cfg: None }, RComp { name: "Cb".into(), id: None, cfg: None }] },
        RArch { name: "A1".into(), id: None, cfg: None, comps: vec![RComp { name: "Ca".into(), id: None, cfg: None }, RComp { name: "Cc".into(), id: None, cfg: None }] },
    ];
    let decl = decl_text("Wx", &base);
    let (d, _) = world_data(&decl, &always).expect("base world");
    let ids = data_to_ids(&d);
    let b64 = d.to_base64();
    // every parameter kind: the four that restrict matching (component, OneOf, Entity<A>, EntityDirect<A>) and the four that do not
    let tys_all = vec![
        (PType::Comp("Ca".into()), false), (PType::Comp("Cb".into()), true), (PType::Comp("Cc".into()), false), (PType::Entity("A0".into()), false),
        (PType::EntityAny, false), (PType::DirectWild, false), (PType::OneOf(vec!["Cb".into(), "Cc".into()]), false), (PType::Entity("A1".into()), false),
        (PType::Direct("A0".into()), false), (PType::Direct("A1".into()), false), (PType::EntityWild, false), (PType::DirectAny, false),
    ];
    // three-parameter lists: eight kinds (both named-archetype kinds, on different archetypes)
    let tys_3 = vec![
        (PType::Comp("Ca".into()), false), (PType::Comp("Cb".into()), true), (PType::Comp("Cc".into()), false), (PType::Entity("A0".into()), false),
        (PType::EntityAny, false), (PType::DirectWild, false), (PType::OneOf(vec!["Cb".into(), "Cc".into()]), false), (PType::Direct("A1".into()), false),
    ];
    let mut plists: Vec<Vec<Param>> = Vec::new();
    let lens: Vec<usize> = if thorough { vec![1, 2, 3] } else { vec![1, 2] };
    for len in lens {
        let mut cur: Vec<Vec<Param>> = vec![vec![]];
        // three-parameter lists use three predicates (the fourth multiplies the space by 5 for no new relation)
        let np = if len >= 3 { 3 } else { npreds };
        let tys = if len >= 3 { tys_3.clone() } else { tys_all.clone() };
        for _ in 0..len {
            cur = cur.into_iter().flat_map(|p| {
                let tys = tys.clone();
                tys.into_iter().flat_map(move |(ty, m)| {
                    let p = p.clone();
                    deco_choices(np, true).into_iter().map(move |c| { let mut q = p.clone(); q.push(Param { ty: ty.clone(), is_mut: m, cfg: c.map(|x| x.to_string()) }); q })
                })
            }).collect();
        }
        plists.extend(cur);
    }
    let query_count = AtomicU64::new(0);
    par(threads, &plists, ctx, |params| {
        let used: Vec<&str> = PREDS.iter().cloned().filter(|p| params.iter().any(|q| cfg_preds(&q.cfg).iter().any(|x| x == p))).collect();
        for tv in 0..(1u32 << used.len()) {
            let truth = |p: &str| used.iter().position(|u| *u == p).map(|i| tv & (1 << i) != 0).unwrap_or(true);
            for mac in MACS {
                query_count.fetch_add(1, Ordering::Relaxed);
                // reference
                check_query(ctx, &ids, &b64, &decl, params, mac, &truth, "C16");
                if params.iter().any(|p| matches!(p.ty, PType::OneOf(_)) && p.cfg.is_some()) {
                    continue; // F7: rejected outright, nothing to compare
                }
                // differential: strip what rustc would strip and compare with the expansion of the twin query
                let twin: Vec<(usize, &Param)> = params.iter().enumerate().filter(|(_, p)| cfg_on(&p.cfg, &truth)).collect();
                let twin_text = twin.iter().map(|(i, p)| Param { ty: p.ty.clone(), is_mut: p.is_mut, cfg: None }.text(&format!("p{}", i))).collect::<Vec<_>>().join(", ");
                let real = query_tokens(mac, &b64, &params_text(params), &truth).map(|ts| analyze::strip_cfg(&ts, &truth));
                let tw = query_tokens(mac, &b64, &twin_text, &always).map(|ts| analyze::strip_cfg(&ts, &always));
                if real != tw {
                    ctx.report("C16", "decorated-query-differs-from-twin", format!("after cfg-stripping with truth {:?} over {:?} the expansion differs from the expansion of |{}|:\n  decorated: {:?}\n  twin:      {:?}", tv, used, twin_text, real, tw),
                        format!("{}!(world, |{}| ..) on {}", mac.name(), params_text(params), decl.replace('\n', " ")));
                }
                if used.len() >= 2 && tv != 0 && tv != (1 << used.len()) - 1 {
                    ctx.nontrivial.fetch_add(1, Ordering::Relaxed);
                }
            }
        }
    });
    ctx.sample(serde_json::json!({"declaration": "#[cfg(any(fa))] ecs_archetype!(A0, Ca, #[cfg(any(fa, fb))] Cb); #[archetype_id(0)] ecs_archetype!(A1, #[cfg(any(fa, fb))] Cb, Cc);", "truth": {"any(fa)": false, "any(fa, fb)": true}, "twin": "#[archetype_id(0)] ecs_archetype!(A1, Cb, Cc);"}));
    ctx.sample(serde_json::json!({"query": "ecs_iter!(world, |#[cfg(any(fa))] p0: &Ca, p1: &mut Cb, #[cfg(any(fa, fb))] p2: &Entity<A1>| ..)", "truth": {"any(fa)": true, "any(fa, fb)": false}, "twin": "|p0: &Ca, p1: &mut Cb|"}));
    serde_json::json!({"decoration_sites": 6, "predicates": npreds, "predicate_texts": refm::PRED_TEXT.iter().take(npreds).map(|x| x.1).collect::<Vec<_>>(), "predicate_truth": "independent per predicate (supplied by the driver in place of rustc): the texts are chosen to be token-prefixes of one another", "attributes_per_site": "0..1 (0..2, both orders, on two declaration sites and on every query parameter)", "declaration_variants": variants.len(), "wide_declarations_x_truth": wide_count, "decorated_declarations_x_truth": decl_count.load(Ordering::Relaxed), "decorated_queries_x_truth_x_macro": query_count.load(Ordering::Relaxed), "parameter_lists": plists.len()})
}

fn arg(args: &[String], name: &str) -> Option<String> {
    args.iter().position(|a| a == name).and_then(|i| args.get(i + 1).cloned())
}

fn main() {
    let args: Vec<String> = std::env::args().collect();
    let thorough = arg(&args, "--tier").as_deref() == Some("thorough");
    let threads: usize = arg(&args, "--threads").map(|s| s.parse().unwrap()).unwrap_or(16);
    let ctx = Ctx::new();
    let t0 = std::time::Instant::now();
    let detail = match args.get(1).map(|s| s.as_str()) {
        Some("c15") => run_c15(thorough, threads, &ctx),
        Some("c05") => run_c05(thorough, threads, &ctx),
        Some("c16") => run_c16(thorough, threads, &ctx),
        Some("emit") => emit::emit(thorough, &arg(&args, "--dir").expect("--dir"), arg(&args, "--prop").as_deref(), arg(&args, "--shards").map(|s| s.parse().unwrap()).unwrap_or(8), arg(&args, "--cfgflags").map(|s| s.parse().unwrap())),
        _ => {
            eprintln!("usage: px c15|c05|c16|emit --tier quick|thorough --out <file>");
            std::process::exit(2);
        }
    };
    let out = serde_json::json!({
        "config": format!("events={}", cfg!(feature = "events")),
        "evaluations": ctx.evals.load(Ordering::Relaxed),
        "distinct_nontrivial": ctx.nontrivial.load(Ordering::Relaxed),
        "expected_rejections": ctx.errors_expected.load(Ordering::Relaxed),
        "expansions_scanned_for_unsafe": ctx.tokens_scanned.load(Ordering::Relaxed),
        "known": *ctx.known.lock().unwrap(),
        "violations": ctx.found.lock().unwrap().values().cloned().collect::<Vec<_>>(),
        "samples": *ctx.samples.lock().unwrap(),
        "capped": ctx.stop.load(Ordering::Relaxed),
        "detail": detail,
        "wall_s": t0.elapsed().as_secs_f64(),
    });
    match arg(&args, "--out") {
        Some(p) => std::fs::write(p, serde_json::to_string_pretty(&out).unwrap()).unwrap(),
        None => println!("{}", serde_json::to_string_pretty(&out).unwrap()),
    }
    std::process::exit(if ctx.found.lock().unwrap().is_empty() { 0 } else { 1 });
}
