//! Conformance programs for the REAL rustc + REAL proc macros (this is what exercises the generated
//! cfg-probing macro chain, the generated impls and consts, and `#![forbid(unsafe_code)]`).
//!
//! `emit` writes two cargo projects:
//!   <dir>/pos  one binary; every case is a module (decorated world) plus, for cfg cases, its undecorated
//!              twin with textually identical instrumentation. The binary prints one JSON line per mismatch
//!              between (decorated trace, twin trace, reference expectation).
//!   <dir>/neg  one binary target per ill-formed program, with the expected diagnostic in expectations.json.
//!
//! Cases are selected systematically (strides over the exhaustive enumerations), never randomly.

use std::collections::BTreeMap;
use std::fmt::Write as _;

use crate::drive::*;
use crate::refm::*;

pub struct Case {
    pub name: String,
    pub prop: &'static str,
    pub archs: Vec<RArch>,
    pub queries: Vec<(Mac, Vec<Param>)>,
    pub with_twin: bool,
}

/// every component struct a conformance module declares ("Ca" is a prefix of "Cab" on purpose)
const POOL4: [&str; 5] = ["Ca", "Cab", "Cb", "Cc", "Cd"];

/// Constant predicates: truth is fixed by their text.
/// Slot 3's forms extend slot 1's forms of the OPPOSITE truth value (all() / all(any()), any() / any(all())): a
/// predicate that is a token-prefix of another one with a different value.
pub const TRUE_FORMS: [&str; 3] = ["all()", "not(any())", "any(all())"];
pub const FALSE_FORMS: [&str; 3] = ["any()", "not(all())", "all(any())"];
/// `--cfgflags`: the three flag predicates; the third is the key-value form of the first (independent in rustc).
pub const FLAG_FORMS: [&str; 3] = ["vp0", "vp1", "vp0 = \"x\""];

thread_local! {
    /// `--cfgflags <tv>`: predicates are the plain cfg names vp0, vp1, vp2 whose truth comes from real `--cfg`
    /// flags given to rustc; bit i of tv = "vp<i> is set".
    pub static FLAG_TRUTH: std::cell::Cell<Option<u32>> = std::cell::Cell::new(None);
}

pub fn const_truth(p: &str) -> bool {
    let q: String = p.chars().filter(|c| !c.is_whitespace()).collect();
    if let Some(tv) = FLAG_TRUTH.with(|f| f.get()) {
        if let Some(i) = FLAG_FORMS.iter().position(|f| f.chars().filter(|c| !c.is_whitespace()).collect::<String>() == q) {
            return tv & (1 << i) != 0;
        }
    }
    if TRUE_FORMS.contains(&q.as_str()) {
        true
    } else if FALSE_FORMS.contains(&q.as_str()) {
        false
    } else {
        panic!("px emit: predicate '{}' has no fixed truth", p)
    }
}

fn comp_index(c: &str) -> i64 {
    POOL4.iter().position(|x| *x == c).unwrap_or(9) as i64
}

fn strip(archs: &[RArch]) -> Vec<RArch> {
    let on = |c: &Option<String>| cfg_on(c, &const_truth);
    archs.iter().filter(|a| on(&a.cfg)).map(|a| RArch { name: a.name.clone(), id: a.id, cfg: None, comps: a.comps.iter().filter(|c| on(&c.cfg)).map(|c| RComp { name: c.name.clone(), id: c.id, cfg: None }).collect() }).collect()
}

fn strip_params(params: &[Param]) -> Vec<(usize, Param)> {
    params.iter().enumerate().filter(|(_, p)| cfg_on(&p.cfg, &const_truth)).map(|(i, p)| (i, Param { ty: p.ty.clone(), is_mut: p.is_mut, cfg: None })).collect()
}

/// Is the query compilable and runnable without a borrow conflict? (every matched archetype must bind pairwise
/// distinct columns; `&mut` twice on one column is C18's business, not a conformance case)
pub fn runnable(ids: &WorldIds, params: &[Param]) -> bool {
    match match_query(ids, params, &const_truth) {
        QExpect::Matches(list) => list.iter().all(|(_, tys)| {
            let comps: Vec<&String> = tys.iter().filter(|t| t.starts_with('C')).collect();
            let mut d = comps.clone();
            d.sort();
            d.dedup();
            d.len() == comps.len()
        }),
        _ => false,
    }
}

/// Instrumentation shared verbatim by a decorated module and its twin: mentions enabled items only.
fn body(world_ty: &str, ids: &WorldIds, queries: &[(Mac, Vec<Param>)], decorated: bool) -> String {
    let mut s = String::new();
    writeln!(s, "    pub fn trace() -> Vec<String> {{").unwrap();
    writeln!(s, "        let mut t: Vec<String> = Vec::new();").unwrap();
    writeln!(s, "        t.push(format!(\"num_archetypes={{}}\", <{} as World>::NUM_ARCHETYPES));", world_ty).unwrap();
    for (an, _, comps) in &ids.archs {
        writeln!(s, "        t.push(format!(\"{an}.id={{}}\", <{an} as Archetype>::ARCHETYPE_ID));").unwrap();
        for (cn, _) in comps {
            writeln!(s, "        t.push(format!(\"{an}.{cn}.id={{}}/{{}}\", <{an} as ArchetypeHas<{cn}>>::COMPONENT_ID, ecs_component_id!({cn}, {an})));").unwrap();
        }
    }
    // the Select* conversions over all 256 ids
    writeln!(s, "        let mut sel = String::new();").unwrap();
    writeln!(s, "        for id in 0..=255u8 {{ if let Ok(a) = SelectArchetype::try_from(id) {{ sel.push_str(&format!(\"{{}}:{{}},\", id, a.archetype_id())); }} }}").unwrap();
    writeln!(s, "        t.push(format!(\"select={{}}\", sel));").unwrap();
    writeln!(s, "        let mut world = {}::new();", world_ty).unwrap();
    // two entities per archetype; values identify (archetype position, entity, column type)
    for (ai, (an, _, comps)) in ids.archs.iter().enumerate() {
        for e in 0..2 {
            let tuple: Vec<String> = comps.iter().map(|(cn, _)| format!("{}({})", cn, ai as i64 * 1000 + e * 100 + comp_index(cn))).collect();
            writeln!(s, "        let h_{}_{} = world.create::<{}>(({},));", an.to_lowercase(), e, an, tuple.join(", ")).unwrap();
            writeln!(s, "        t.push(format!(\"{an}.handle_id={{}}\", h_{}_{e}.into_any().archetype_id()));", an.to_lowercase()).unwrap();
        }
    }
    for (qi, (mac, params)) in queries.iter().enumerate() {
        let shown: Vec<(usize, Param)> = if decorated { params.iter().cloned().enumerate().collect() } else { strip_params(params) };
        let ptxt = shown.iter().map(|(i, p)| p.text(&format!("p{}", i))).collect::<Vec<_>>().join(", ");
        // the closure body only touches ENABLED parameters, so it is the same text in both modules
        let mut push = String::new();
        for (i, p) in strip_params(params) {
            match p.ty {
                // a named component also reports `ecs_component_id!(C)` resolved against the archetype being visited
                PType::Comp(ref c) => write!(push, "row.push(p{}.0); row.push(7000000 + ecs_component_id!({}) as i64); ", i, c).unwrap(),
                PType::OneOf(_) => write!(push, "row.push(p{}.0); ", i).unwrap(),
                PType::Entity(_) | PType::EntityWild | PType::EntityAny | PType::Direct(_) | PType::DirectWild | PType::DirectAny => write!(push, "row.push(1000000 + p{}.archetype_id() as i64); ", i).unwrap(),
            }
        }
        writeln!(s, "        {{").unwrap();
        writeln!(s, "            let mut rows: Vec<Vec<i64>> = Vec::new();").unwrap();
        if mac.is_find() {
            // one find per enabled archetype (matched or not), on its entity 0, with a typed and a dynamic key alternately
            for (ai, (an, _, _)) in ids.archs.iter().enumerate() {
                let key = if (ai + qi) % 2 == 0 { format!("h_{}_0", an.to_lowercase()) } else { format!("h_{}_0.into_any()", an.to_lowercase()) };
                writeln!(s, "            let r = {}!(world, {}, |{}| {{ let mut row: Vec<i64> = Vec::new(); {}rows.push(row); }});", mac.name(), key, ptxt, push).unwrap();
                writeln!(s, "            rows.push(vec![-1 - {} as i64, r.is_some() as i64]);", ai).unwrap();
            }
        } else {
            writeln!(s, "            {}!(world, |{}| {{ let mut row: Vec<i64> = Vec::new(); {}rows.push(row); }});", mac.name(), ptxt, push).unwrap();
        }
        writeln!(s, "            rows.sort();").unwrap();
        writeln!(s, "            t.push(format!(\"q{}={{:?}}\", rows));", qi).unwrap();
        writeln!(s, "        }}").unwrap();
    }
    writeln!(s, "        t").unwrap();
    writeln!(s, "    }}").unwrap();
    s
}

/// What the reference says the trace must be.
fn expected_trace(ids: &WorldIds, queries: &[(Mac, Vec<Param>)]) -> Vec<String> {
    let mut t = Vec::new();
    t.push(format!("num_archetypes={}", ids.archs.len()));
    for (an, id, comps) in &ids.archs {
        t.push(format!("{}.id={}", an, id));
        for (cn, cid) in comps {
            t.push(format!("{}.{}.id={}/{}", an, cn, cid, cid));
        }
    }
    let mut declared: Vec<u8> = ids.archs.iter().map(|a| a.1).collect();
    declared.sort();
    t.push(format!("select={}", declared.iter().map(|i| format!("{}:{},", i, i)).collect::<String>()));
    for (an, id, _) in &ids.archs {
        for _ in 0..2 {
            t.push(format!("{}.handle_id={}", an, id));
        }
    }
    for (qi, (mac, params)) in queries.iter().enumerate() {
        let enabled: Vec<Param> = strip_params(params).into_iter().map(|x| x.1).collect();
        let m = match match_query(ids, params, &const_truth) {
            QExpect::Matches(l) => l,
            other => panic!("px emit: conformance query is not well-formed: {:?}", other),
        };
        let mut rows: Vec<Vec<i64>> = Vec::new();
        let row_for = |ai: usize, e: i64, bound: &Vec<String>| -> Vec<i64> {
            enabled.iter().zip(bound.iter()).flat_map(|(p, b)| match p.ty {
                PType::Comp(_) => vec![ai as i64 * 1000 + e * 100 + comp_index(b), 7000000 + ids.archs[ai].2.iter().find(|c| &c.0 == b).map(|c| c.1 as i64).unwrap_or(-1)],
                PType::OneOf(_) => vec![ai as i64 * 1000 + e * 100 + comp_index(b)],
                _ => vec![1000000 + ids.archs[ai].1 as i64],
            }).collect()
        };
        for (ai, (an, _, _)) in ids.archs.iter().enumerate() {
            let hit = m.iter().find(|(n, _)| n == an);
            if mac.is_find() {
                if let Some((_, bound)) = hit {
                    rows.push(row_for(ai, 0, bound));
                }
                rows.push(vec![-1 - ai as i64, hit.is_some() as i64]);
            } else if let Some((_, bound)) = hit {
                for e in 0..2 {
                    rows.push(row_for(ai, e, bound));
                }
            }
        }
        rows.sort();
        t.push(format!("q{}={:?}", qi, rows));
    }
    t
}

fn module(case: &Case, twin: bool) -> String {
    let archs = if twin { strip(&case.archs) } else { case.archs.clone() };
    let modname = format!("{}_{}", case.name, if twin { "t" } else { "d" });
    let wname = format!("W{}{}", case.name.to_uppercase(), if twin { "T" } else { "D" });
    let ids = assign_ids(&strip(&case.archs), &|_| true).expect("px emit: positive case must be well-formed");
    let mut s = String::new();
    writeln!(s, "#[allow(unused, non_snake_case, non_camel_case_types, unused_mut)]\npub mod {} {{", modname).unwrap();
    writeln!(s, "    use gecs::prelude::*;").unwrap();
    for c in POOL4 {
        writeln!(s, "    pub struct {}(pub i64);", c).unwrap();
    }
    writeln!(s, "    ecs_world! {{\n        {}    }}", decl_text(&wname, &archs).replace('\n', "\n        ")).unwrap();
    s.push_str(&body(&wname, &ids, &case.queries, !twin));
    writeln!(s, "}}").unwrap();
    s
}

pub struct Neg {
    pub name: String,
    pub prop: &'static str,
    pub program: String,
    pub expect: String,
}

fn neg_program(archs: &[RArch], query: Option<(Mac, Vec<Param>)>) -> String {
    let mut s = String::new();
    writeln!(s, "#![allow(unused)]\nuse gecs::prelude::*;").unwrap();
    for c in POOL4 {
        writeln!(s, "pub struct {}(pub i64);", c).unwrap();
    }
    writeln!(s, "ecs_world! {{\n    {}}}", decl_text("Wn", archs).replace('\n', "\n    ")).unwrap();
    writeln!(s, "fn main() {{").unwrap();
    if let Some((mac, params)) = query {
        writeln!(s, "    let mut world = Wn::new();").unwrap();
        let a0 = &archs[0];
        let tuple: Vec<String> = a0.comps.iter().map(|c| format!("{}(1)", c.name)).collect();
        writeln!(s, "    let h = world.create::<{}>(({},));", a0.name, tuple.join(", ")).unwrap();
        if mac.is_find() {
            writeln!(s, "    let _ = {}!(world, h, |{}| {{ }});", mac.name(), params_text(&params)).unwrap();
        } else {
            writeln!(s, "    {}!(world, |{}| {{ }});", mac.name(), params_text(&params)).unwrap();
        }
    }
    writeln!(s, "}}").unwrap();
    s
}

pub fn emit(thorough: bool, dir: &str, only: Option<&str>, shards: usize, cfgflags: Option<u32>) -> serde_json::Value {
    FLAG_TRUTH.with(|f| f.set(cfgflags));
    let repo = std::env::var("GECS_REPO").unwrap_or_else(|_| "/repo".to_string());
    let mut cases: Vec<Case> = Vec::new();
    let mut negs: Vec<Neg> = Vec::new();
    let always = |_: &str| true;

    // ---------------- C05: worlds x systematically strided parameter lists, macros rotated ----------------
    let pool = ["Ca", "Cab", "Cc"];
    let ws = crate::worlds(&pool, if thorough { 3 } else { 2 });
    let per_world = if thorough { 24 } else { 6 };
    for (wi, archs) in ws.iter().enumerate() {
        let ids = assign_ids(archs, &always).unwrap();
        let names: Vec<String> = archs.iter().map(|a| a.name.clone()).collect();
        let alpha = crate::param_alphabet(&pool, &names);
        let lists = crate::param_lists(&alpha, 2);
        let stride = (lists.len() / per_world).max(1);
        let mut qs = Vec::new();
        let mut k = (wi * 7) % stride;
        let mut guard = 0;
        while qs.len() < per_world && guard < lists.len() {
            let params = &lists[k % lists.len()];
            if runnable(&ids, params) {
                qs.push((MACS[(wi + qs.len()) % 5], params.clone()));
                k += stride;
            } else {
                // systematic fallback: the next list in enumeration order
                k += 1;
            }
            guard += 1;
        }
        cases.push(Case { name: format!("q{:04}", wi), prop: "C05", archs: archs.clone(), queries: qs, with_twin: false });
        // negatives: the first no-match and the first ambiguous parameter list of this world (every 3rd world)
        if wi % 3 == 0 || thorough {
            let mut want_nomatch = true;
            let mut want_amb = true;
            for params in lists.iter().skip(wi % 11) {
                match match_query(&ids, params, &always) {
                    QExpect::NoMatch if want_nomatch && !params.is_empty() => {
                        want_nomatch = false;
                        negs.push(Neg { name: format!("n05m{:04}", wi), prop: "C05", program: neg_program(archs, Some((MACS[wi % 5], params.clone()))), expect: "query matched no archetypes in world".into() });
                    }
                    QExpect::Ambiguous { .. } if want_amb => {
                        want_amb = false;
                        negs.push(Neg { name: format!("n05a{:04}", wi), prop: "C05", program: neg_program(archs, Some((MACS[(wi + 2) % 5], params.clone()))), expect: "OneOf parameter is ambiguous for".into() });
                    }
                    _ => {}
                }
                if !want_nomatch && !want_amb {
                    break;
                }
            }
        }
    }

    // ---------------- C15: id declarations ----------------
    let id_choices: [Option<u8>; 6] = [None, Some(0), Some(1), Some(2), Some(254), Some(255)];
    let mut n15 = 0;
    let mut decls: Vec<Vec<(Option<u8>, bool)>> = Vec::new();
    for k in 1..=3usize {
        let mut cur: Vec<Vec<(Option<u8>, bool)>> = vec![vec![]];
        for _ in 0..k {
            cur = cur.into_iter().flat_map(|p| id_choices.iter().flat_map(move |i| { let p = p.clone(); [false, true].into_iter().map(move |off| { let mut q = p.clone(); q.push((*i, off)); q }) })).collect();
        }
        decls.extend(cur);
    }
    let stride15 = if thorough { 2 } else { 29 };
    for (di, t) in decls.iter().enumerate() {
        if di % stride15 != 0 {
            continue;
        }
        for arch_level in [true, false] {
            let off = |o: bool| o.then(|| FALSE_FORMS[0].to_string());
            let archs: Vec<RArch> = if arch_level {
                t.iter().enumerate().map(|(i, (id, o))| RArch { name: format!("A{}", i), id: *id, cfg: off(*o), comps: vec![RComp { name: "Ca".into(), id: None, cfg: None }] }).collect()
            } else {
                vec![RArch { name: "A0".into(), id: None, cfg: None, comps: t.iter().enumerate().map(|(i, (id, o))| RComp { name: POOL4[i].into(), id: *id, cfg: off(*o) }).collect() }]
            };
            let st = strip(&archs);
            if st.is_empty() || st.iter().any(|a| a.comps.is_empty()) {
                continue;
            }
            match assign_ids(&archs, &const_truth) {
                Ok(_) => {
                    cases.push(Case { name: format!("i{:04}{}", n15, if arch_level { "a" } else { "c" }), prop: "C15", archs, queries: vec![], with_twin: true });
                }
                Err(e) => {
                    let expect = match e {
                        IdErr::Exceeds255(_) => "attribute id may not exceed 255".to_string(),
                        IdErr::Duplicate(id, _) => format!("attribute id {} is already assigned to", id),
                    };
                    // ill-formed declarations are cheap to enumerate but each costs a rustc run: every 4th in quick
                    if thorough || n15 % 4 == 0 {
                        negs.push(Neg { name: format!("n15{:04}{}", n15, if arch_level { "a" } else { "c" }), prop: "C15", program: neg_program(&archs, None), expect });
                    }
                }
            }
            n15 += 1;
        }
    }

    // two archetypes sharing a component at DIFFERENT positions, explicit ids on archetypes and components
    let small: [Option<u8>; 3] = [None, Some(0), Some(255)];
    let mut nm = 0;
    for a0 in small { for a1 in small { for c00 in small { for c01 in small { for c10 in small { for c11 in small {
        nm += 1;
        if nm % (if thorough { 3 } else { 23 }) != 0 {
            continue;
        }
        let archs = vec![
            RArch { name: "A0".into(), id: a0, cfg: None, comps: vec![RComp { name: "Ca".into(), id: c00, cfg: None }, RComp { name: "Cb".into(), id: c01, cfg: None }] },
            RArch { name: "A1".into(), id: a1, cfg: None, comps: vec![RComp { name: "Cb".into(), id: c10, cfg: None }, RComp { name: "Cc".into(), id: c11, cfg: None }] },
        ];
        if assign_ids(&archs, &const_truth).is_ok() {
            let q = vec![(MACS[nm % 5], vec![Param { ty: PType::Comp("Cb".into()), is_mut: false, cfg: None }, Param { ty: PType::EntityWild, is_mut: false, cfg: None }]),
                         (MACS[(nm + 2) % 5], vec![Param { ty: PType::OneOf(vec!["Ca".into(), "Cc".into()]), is_mut: false, cfg: None }, Param { ty: PType::Comp("Cb".into()), is_mut: true, cfg: None }])];
            cases.push(Case { name: format!("i{:04}m", nm), prop: "C15", archs, queries: q, with_twin: false });
        }
    }}}}}}

    // ---------------- C16: decorated world + decorated queries vs undecorated twin ----------------
    // sites: A0, A0.Ca, A0.Cb, A1, A1.Cb, A1.Cc in {none, slot0, slot1, slot2}; only decorations with >= 2 distinct
    // slots and mixed truth are compiled (the others are covered by the library-driven enumeration).
    let mut n16 = 0;
    let total_sites = 4usize.pow(6);
    let stride16 = if thorough { 7 } else { 97 };
    for code in 0..total_sites {
        let site: Vec<usize> = (0..6).map(|i| (code / 4usize.pow(i as u32)) % 4).collect(); // 0 = none, 1..3 = slot
        let used: Vec<usize> = (1..=3).filter(|s| site.contains(s)).collect();
        if used.len() < 2 {
            continue;
        }
        let flag_tv = FLAG_TRUTH.with(|f| f.get());
        let tvs: Vec<u32> = match flag_tv {
            // real flags: one global truth vector; the decoration is interesting if its used slots have mixed truth
            Some(g) => {
                let bits: Vec<bool> = used.iter().map(|s| g & (1 << (s - 1)) != 0).collect();
                if bits.iter().any(|b| *b) && bits.iter().any(|b| !*b) { vec![g] } else { vec![] }
            }
            None => (1..((1u32 << used.len()) - 1)).collect(),
        };
        for tv in tvs {
            n16 += 1;
            if n16 % stride16 != 0 {
                continue;
            }
            let pred = |slot: usize| -> Option<String> {
                if slot == 0 {
                    return None;
                }
                if flag_tv.is_some() {
                    return Some(FLAG_FORMS[slot - 1].to_string());
                }
                let j = used.iter().position(|u| *u == slot).unwrap();
                let t = tv & (1 << j) != 0;
                Some(if t { TRUE_FORMS[slot - 1] } else { FALSE_FORMS[slot - 1] }.to_string())
            };
            let archs = vec![
                RArch { name: "A0".into(), id: None, cfg: pred(site[0]), comps: vec![RComp { name: "Ca".into(), id: None, cfg: pred(site[1]) }, RComp { name: "Cb".into(), id: None, cfg: pred(site[2]) }] },
                RArch { name: "A1".into(), id: if code % 3 == 0 { Some(0) } else { None }, cfg: pred(site[3]), comps: vec![RComp { name: "Cb".into(), id: None, cfg: pred(site[4]) }, RComp { name: "Cc".into(), id: None, cfg: pred(site[5]) }] },
            ];
            let st = strip(&archs);
            if st.is_empty() || st.iter().any(|a| a.comps.is_empty()) {
                continue;
            }
            let ids = match assign_ids(&archs, &const_truth) {
                Ok(i) => i,
                Err(_) => continue, // ill-formed under this truth vector (A1's explicit 0 collides with an enabled A0): library-driven part covers it
            };
            // queries: parameters over the ENABLED names, two of them decorated with the same slots (mixed truth again)
            let mut qs: Vec<(Mac, Vec<Param>)> = Vec::new();
            let comps_enabled: Vec<String> = { let mut v: Vec<String> = ids.archs.iter().flat_map(|a| a.2.iter().map(|c| c.0.clone())).collect(); v.sort(); v.dedup(); v };
            let p_on = pred(used[0]);
            let p_b = pred(used[1]);
            for (qi, c) in comps_enabled.iter().enumerate() {
                // the typed-entity parameter carries TWO attributes (both orders occur over the cases)
                let both = match (&p_on, &p_b) {
                    (Some(a), Some(b)) => Some(if (n16 + qi) % 2 == 0 { format!("{} && {}", a, b) } else { format!("{} && {}", b, a) }),
                    _ => None,
                };
                let mut params = vec![
                    Param { ty: PType::Comp(c.clone()), is_mut: qi % 2 == 0, cfg: if qi % 2 == 0 { None } else { p_on.clone() } },
                    Param { ty: PType::EntityAny, is_mut: false, cfg: p_b.clone() },
                    Param { ty: PType::Entity(ids.archs[0].0.clone()), is_mut: false, cfg: if qi % 3 == 0 { both.clone() } else if qi % 2 == 0 { p_on.clone() } else { p_b.clone() } },
                ];
                if qi == 1 {
                    params.rotate_left(1);
                }
                if runnable(&ids, &params) {
                    qs.push((MACS[(n16 + qi) % 5], params));
                }
            }
            // queries whose parameters carry THREE distinct predicates (inner macro chain of length 3), written in an order
            // that differs from the slot order, and one predicate used on two parameters
            if used.len() == 3 {
                let (pa, pb, pc) = (pred(used[0]), pred(used[1]), pred(used[2]));
                for (qi, c) in comps_enabled.iter().enumerate().take(2) {
                    let params = vec![
                        Param { ty: PType::EntityAny, is_mut: false, cfg: if qi == 0 { pc.clone() } else { pb.clone() } },
                        Param { ty: PType::Comp(c.clone()), is_mut: false, cfg: if qi == 0 { pa.clone() } else { pc.clone() } },
                        Param { ty: PType::Entity(ids.archs[ids.archs.len() - 1].0.clone()), is_mut: false, cfg: if qi == 0 { pb.clone() } else { pa.clone() } },
                        Param { ty: PType::DirectAny, is_mut: false, cfg: if qi == 0 { pa.clone() } else { pb.clone() } },
                    ];
                    if runnable(&ids, &params) {
                        qs.push((MACS[(n16 + qi + 2) % 5], params));
                    }
                }
            }
            cases.push(Case { name: format!("c{:05}", n16), prop: "C16", archs, queries: qs, with_twin: true });
        }
    }
    // F7 (known finding): cfg on a OneOf parameter, with a TRUE predicate, is rejected
    if cfgflags.is_none() { negs.push(Neg {
        name: "n16f7".into(), prop: "C16",
        program: neg_program(&[RArch { name: "A0".into(), id: None, cfg: None, comps: vec![RComp { name: "Ca".into(), id: None, cfg: None }] }], Some((Mac::Iter, vec![Param { ty: PType::OneOf(vec!["Ca".into(), "Cb".into()]), is_mut: false, cfg: Some("all()".into()) }]))),
        expect: "cfg attributes not currently supported on OneOf".into(),
    }); }

    if let Some(p) = only {
        cases.retain(|c| c.prop == p);
        negs.retain(|n| n.prop == p);
    }

    // ---------------- write the projects ----------------
    let pos = format!("{}/pos", dir);
    let neg = format!("{}/neg", dir);
    std::fs::create_dir_all(format!("{}/src/bin", neg)).unwrap();
    std::fs::create_dir_all(format!("{}/src/bin", pos)).unwrap();
    let cargo = |name: &str| format!("[package]\nname = \"{}\"\nversion = \"0.0.0\"\nedition = \"2021\"\n\n[dependencies]\ngecs = {{ path = \"{}\"{} }}\n\n[profile.dev]\ndebug = false\nopt-level = 0\nincremental = false\n\n[workspace]\n", name, repo,
        if cfg!(feature = "events") { ", features = [\"events\"]" } else { "" });
    std::fs::write(format!("{}/Cargo.toml", pos), cargo("pxpos")).unwrap();
    std::fs::write(format!("{}/Cargo.toml", neg), cargo("pxneg")).unwrap();
    std::fs::create_dir_all(format!("{}/src/bin", pos)).unwrap();
    let mut by_prop: BTreeMap<&str, usize> = BTreeMap::new();
    let mut nq = 0;
    let shards = shards.max(1);
    let mut mains: Vec<(String, String)> = (0..shards).map(|_| (String::from("#![forbid(unsafe_code)]\n#![allow(unused)]\n\n"), String::new())).collect();
    // the cases are spread over several binaries so that cargo compiles them in parallel
    for (ci, case) in cases.iter().enumerate() {
        *by_prop.entry(case.prop).or_insert(0) += 1;
        nq += case.queries.len();
        let mut m = module(case, false);
        if case.with_twin {
            m.push_str(&module(case, true));
        }
        let file = format!("m{:05}.rs", ci);
        std::fs::write(format!("{}/src/{}", pos, file), m).unwrap();
        let (head, table) = &mut mains[ci % shards];
        writeln!(head, "#[path = \"../{}\"] mod f{:05};", file, ci).unwrap();
        let ids = assign_ids(&strip(&case.archs), &always).unwrap();
        let exp = expected_trace(&ids, &case.queries);
        writeln!(table, "    run(\"{}\", \"{}\", f{:05}::{}_d::trace, {}, &{:?});", case.name, case.prop, ci, case.name,
            if case.with_twin { format!("Some(f{:05}::{}_t::trace as fn() -> Vec<String>)", ci, case.name) } else { "None".to_string() }, exp).unwrap();
    }
    let runner = r#"
fn run(name: &str, prop: &str, d: fn() -> Vec<String>, t: Option<fn() -> Vec<String>>, want: &[&str]) {
    let got = std::panic::catch_unwind(d);
    let got = match got { Ok(g) => g, Err(_) => { println!("{{\"case\":\"{}\",\"prop\":\"{}\",\"kind\":\"panicked\"}}", name, prop); return; } };
    let want: Vec<String> = want.iter().map(|s| s.to_string()).collect();
    if got != want {
        let i = got.iter().zip(want.iter()).position(|(a, b)| a != b).unwrap_or(got.len().min(want.len()));
        println!("{{\"case\":\"{}\",\"prop\":\"{}\",\"kind\":\"differs-from-reference\",\"got\":{:?},\"want\":{:?}}}", name, prop, got.get(i).map(|s| s.as_str()).unwrap_or("<nothing>"), want.get(i).map(|s| s.as_str()).unwrap_or("<nothing>"));
    }
    if let Some(t) = t {
        let tw = t();
        if tw != got {
            let i = got.iter().zip(tw.iter()).position(|(a, b)| a != b).unwrap_or(got.len().min(tw.len()));
            println!("{{\"case\":\"{}\",\"prop\":\"{}\",\"kind\":\"decorated-differs-from-twin\",\"got\":{:?},\"want\":{:?}}}", name, prop, got.get(i).map(|s| s.as_str()).unwrap_or("<nothing>"), tw.get(i).map(|s| s.as_str()).unwrap_or("<nothing>"));
        }
    }
    println!("{{\"case\":\"{}\",\"prop\":\"{}\",\"kind\":\"done\"}}", name, prop);
}

fn main() {
    std::panic::set_hook(Box::new(|_| {}));
"#;
    for (si, (head, table)) in mains.iter().enumerate() {
        let mut main = head.clone();
        main.push_str(runner);
        main.push_str(table);
        main.push_str("}\n");
        std::fs::write(format!("{}/src/bin/p{}.rs", pos, si), main).unwrap();
    }
    let mut exps = Vec::new();
    for n in &negs {
        std::fs::write(format!("{}/src/bin/{}.rs", neg, n.name), &n.program).unwrap();
        exps.push(serde_json::json!({"bin": n.name, "prop": n.prop, "expect": n.expect, "program": n.program}));
    }
    std::fs::write(format!("{}/expectations.json", neg), serde_json::to_string_pretty(&exps).unwrap()).unwrap();
    let case_index: Vec<serde_json::Value> = cases.iter().map(|c| serde_json::json!({"case": c.name, "prop": c.prop, "declaration": decl_text("W", &c.archs), "queries": c.queries.iter().map(|(m, p)| format!("{}!(|{}|)", m.name(), params_text(p))).collect::<Vec<_>>()})).collect();
    std::fs::write(format!("{}/cases.json", dir), serde_json::to_string(&case_index).unwrap()).unwrap();
    serde_json::json!({"positive_cases": cases.len(), "by_property": by_prop, "queries": nq, "negative_programs": negs.len(), "shards": shards})
}
