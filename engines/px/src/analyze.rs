//! Reading the token streams the real generators emit.

use proc_macro2::{Delimiter, TokenStream, TokenTree};

#[derive(Clone, Debug, PartialEq, Eq)]
pub struct Block {
    pub arch: String,
    /// (parameter name, type text, is_mut, number of cfg attributes)
    pub params: Vec<(String, String, bool, usize)>,
}

fn toks(ts: &TokenStream) -> Vec<TokenTree> {
    ts.clone().into_iter().collect()
}

fn is_punct(t: &TokenTree, c: char) -> bool {
    matches!(t, TokenTree::Punct(p) if p.as_char() == c)
}
fn is_ident(t: &TokenTree, s: &str) -> bool {
    matches!(t, TokenTree::Ident(i) if i == s)
}

fn text(ts: &[TokenTree]) -> String {
    ts.iter().map(|t| t.to_string()).collect::<Vec<_>>().join(" ")
}

/// All `type MatchedArchetype = X; let mut closure = |params| ...` blocks, in emission order.
pub fn blocks(ts: &TokenStream) -> Vec<Block> {
    let mut out = Vec::new();
    walk(&toks(ts), &mut out);
    out
}

fn walk(v: &[TokenTree], out: &mut Vec<Block>) {
    let mut i = 0;
    while i < v.len() {
        if i + 4 < v.len() && is_ident(&v[i], "type") && is_ident(&v[i + 1], "MatchedArchetype") && is_punct(&v[i + 2], '=') && is_punct(&v[i + 4], ';') {
            let arch = v[i + 3].to_string();
            // find `closure = |`
            let mut j = i + 5;
            while j + 2 < v.len() && !(is_ident(&v[j], "closure") && is_punct(&v[j + 1], '=') && is_punct(&v[j + 2], '|')) {
                j += 1;
            }
            let mut params = Vec::new();
            if j + 2 < v.len() {
                let start = j + 3;
                let mut end = start;
                while end < v.len() && !is_punct(&v[end], '|') {
                    end += 1;
                }
                for part in v[start..end].split(|t| is_punct(t, ',')) {
                    if part.is_empty() {
                        continue;
                    }
                    let mut k = 0;
                    let mut cfgs = 0;
                    while k + 1 < part.len() && is_punct(&part[k], '#') {
                        cfgs += 1;
                        k += 2;
                    }
                    // name : & [mut] Type
                    let name = part[k].to_string();
                    let mut t = k + 3;
                    let is_mut = t < part.len() && is_ident(&part[t], "mut");
                    if is_mut {
                        t += 1;
                    }
                    params.push((name, text(&part[t.min(part.len())..]), is_mut, cfgs));
                }
                i = end;
            }
            out.push(Block { arch, params });
        }
        if let TokenTree::Group(g) = &v[i.min(v.len() - 1)] {
            walk(&toks(&g.stream()), out);
        }
        i += 1;
    }
}

/// What rustc's cfg-stripping does to the emitted code, given the truth of every predicate:
/// `#[cfg(p)] item` disappears (up to and including the next top-level comma) if p is false, the attribute
/// alone disappears if p is true. The result is normalised (no comma before a closing bar / group end).
pub fn strip_cfg(ts: &TokenStream, truth: &dyn Fn(&str) -> bool) -> String {
    fn rec(v: &[TokenTree], truth: &dyn Fn(&str) -> bool) -> Vec<String> {
        let mut out: Vec<String> = Vec::new();
        let mut i = 0;
        while i < v.len() {
            if is_punct(&v[i], '#') && i + 1 < v.len() {
                if let TokenTree::Group(g) = &v[i + 1] {
                    let inner = toks(&g.stream());
                    if g.delimiter() == Delimiter::Bracket && !inner.is_empty() && is_ident(&inner[0], "cfg") {
                        let pred = match &inner[1] {
                            TokenTree::Group(pg) => pg.stream().to_string(),
                            other => other.to_string(),
                        };
                        i += 2;
                        if !truth(&crate::refm::pred_symbol(&pred)) {
                            // drop the item: everything up to (and including) the next comma, or up to a bar
                            while i < v.len() && !is_punct(&v[i], ',') && !is_punct(&v[i], '|') {
                                i += 1;
                            }
                            if i < v.len() && is_punct(&v[i], ',') {
                                i += 1;
                            }
                        }
                        continue;
                    }
                }
            }
            match &v[i] {
                TokenTree::Group(g) => {
                    let (o, c) = match g.delimiter() {
                        Delimiter::Parenthesis => ("(", ")"),
                        Delimiter::Brace => ("{", "}"),
                        Delimiter::Bracket => ("[", "]"),
                        Delimiter::None => ("", ""),
                    };
                    out.push(o.to_string());
                    let mut inner = rec(&toks(&g.stream()), truth);
                    if inner.last().map(|s| s == ",").unwrap_or(false) {
                        inner.pop();
                    }
                    out.extend(inner);
                    out.push(c.to_string());
                }
                t => {
                    let s = t.to_string();
                    if s == "|" && out.last().map(|x| x == ",").unwrap_or(false) {
                        out.pop();
                    }
                    out.push(s);
                }
            }
            i += 1;
        }
        out
    }
    rec(&toks(ts), truth).join(" ")
}
