//! The ten-line pipelines of gecs_macros' lib.rs, reproduced with proc_macro2 so that the REAL parser,
//! data and generator modules (compiled from /repo/macros/src through the `msrc` symlink) can be driven
//! as a library.

use proc_macro2::TokenStream;
use quote::quote;

use crate::data::DataWorld;
use crate::generate::{self, FetchMode};
use crate::parse::*;

pub type Truth<'a> = &'a dyn Fn(&str) -> bool;

fn bools(preds: &[TokenStream], truth: Truth) -> Vec<bool> {
    preds.iter().map(|p| truth(&crate::refm::pred_symbol(&p.to_string()))).collect()
}

/// ecs_world!: __expand_ecs_world (collect predicates) + the cfg chain (supplies one bool per predicate, in
/// collection order) + __impl_ecs_world (DataWorld::new). Returns the data and the predicates collected.
fn world_data_raw(raw: &str, truth: Truth) -> Result<(DataWorld, Vec<String>), String> {
    let ts: TokenStream = raw.parse().map_err(|e| format!("lex: {}", e))?;
    let parsed: ParseEcsWorld = syn::parse2(ts.clone()).map_err(|e| e.to_string())?;
    let preds = parsed.collect_all_cfg_predicates();
    let b = bools(&preds, truth);
    let decorated = quote!( ( #(#b),* ), { #ts } );
    let dec: ParseCfgDecorated<ParseEcsWorld> = syn::parse2(decorated).map_err(|e| e.to_string())?;
    let data = DataWorld::new(dec).map_err(|e| e.to_string())?;
    Ok((data, preds.iter().map(|p| p.to_string()).collect()))
}

/// A proc macro that panics is a compile error for the user: every call into the real macro code goes through this, so that a
/// panic becomes a rejection ("proc macro panicked: ..") the oracles compare with the reference, instead of killing the engine.
fn caught<T>(what: &str, f: impl FnOnce() -> Result<T, String>) -> Result<T, String> {
    match std::panic::catch_unwind(std::panic::AssertUnwindSafe(f)) {
        Ok(r) => r,
        Err(p) => {
            let m = p.downcast_ref::<&str>().map(|s| s.to_string()).or_else(|| p.downcast_ref::<String>().cloned()).unwrap_or_default();
            Err(format!("proc macro panicked in {}: {}", what, m))
        }
    }
}

pub fn world_data(raw: &str, truth: Truth) -> Result<(DataWorld, Vec<String>), String> {
    caught("ecs_world! (parse / DataWorld::new)", || world_data_raw(raw, truth))
}

pub fn query_tokens(mac: Mac, world_b64: &str, params: &str, truth: Truth) -> Result<TokenStream, String> {
    caught(mac.name(), || query_tokens_raw(mac, world_b64, params, truth))
}

/// `generate_world` (which embeds the serialised world data for the query macros), caught.
pub fn gen_world(data: &DataWorld, raw: &str) -> Result<TokenStream, String> {
    caught("ecs_world! (generate_world)", || Ok(generate::generate_world(data, raw)))
}

/// Serialisation of the world data as the query macros receive it, and back: (text, archetype/component ids read back).
pub fn b64_roundtrip(data: &DataWorld) -> Result<(String, DataWorld), String> {
    caught("world data serialisation", || {
        let t = data.to_base64();
        let back = DataWorld::from_base64(&t);
        Ok((t, back))
    })
}

pub fn world_tokens(raw: &str, truth: Truth) -> Result<TokenStream, String> {
    let (data, _) = world_data(raw, truth)?;
    gen_world(&data, raw)
}

#[derive(Clone, Copy, Debug, PartialEq, Eq, Hash, PartialOrd, Ord, serde::Serialize)]
pub enum Mac {
    Find,
    FindBorrow,
    Iter,
    IterBorrow,
    IterDestroy,
}

pub const MACS: [Mac; 5] = [Mac::Find, Mac::FindBorrow, Mac::Iter, Mac::IterBorrow, Mac::IterDestroy];

impl Mac {
    pub fn name(&self) -> &'static str {
        match self {
            Mac::Find => "ecs_find",
            Mac::FindBorrow => "ecs_find_borrow",
            Mac::Iter => "ecs_iter",
            Mac::IterBorrow => "ecs_iter_borrow",
            Mac::IterDestroy => "ecs_iter_destroy",
        }
    }
    pub fn is_find(&self) -> bool {
        matches!(self, Mac::Find | Mac::FindBorrow)
    }
}

/// One query macro: `params` is the text between the bars, e.g. `p0: &Ca, #[cfg(p1)] p1: &mut Cb`.
fn query_tokens_raw(mac: Mac, world_b64: &str, params: &str, truth: Truth) -> Result<TokenStream, String> {
    let raw = if mac.is_find() {
        format!("\"{}\", world, entity, |{}| {{ body() }}", world_b64, params)
    } else {
        format!("\"{}\", world, |{}| {{ body() }}", world_b64, params)
    };
    let ts: TokenStream = raw.parse().map_err(|e| format!("lex: {}", e))?;
    macro_rules! run {
        ($P:ty, $gen:path, $mode:expr) => {{
            let parsed: $P = syn::parse2(ts.clone()).map_err(|e| e.to_string())?;
            let preds = parsed.collect_all_cfg_predicates();
            let b = bools(&preds, truth);
            let decorated = quote!( ( #(#b),* ), { #ts } );
            let dec: ParseCfgDecorated<$P> = syn::parse2(decorated).map_err(|e| e.to_string())?;
            $gen($mode, dec).map_err(|e| e.to_string())
        }};
    }
    match mac {
        Mac::Find => run!(ParseQueryFind, generate::generate_query_find, FetchMode::Mut),
        Mac::FindBorrow => run!(ParseQueryFind, generate::generate_query_find, FetchMode::Borrow),
        Mac::Iter => run!(ParseQueryIter, generate::generate_query_iter, FetchMode::Mut),
        Mac::IterBorrow => run!(ParseQueryIter, generate::generate_query_iter, FetchMode::Borrow),
        Mac::IterDestroy => run!(ParseQueryIterDestroy, generate::generate_query_iter_destroy, FetchMode::Mut),
    }
}

/// Does the token stream contain the identifier `unsafe` anywhere?
pub fn has_unsafe(ts: &TokenStream) -> bool {
    ts.clone().into_iter().any(|t| match t {
        proc_macro2::TokenTree::Ident(i) => i == "unsafe",
        proc_macro2::TokenTree::Group(g) => has_unsafe(&g.stream()),
        _ => false,
    })
}
