//! ax — exhaustive matrix of nested runtime-borrowed accesses (C11).
//!
//! A *cell* is a stack of 1..=D accesses, each performed while all earlier ones are still held
//! (guards are kept alive; query macros run the rest of the stack inside their closure; clone runs it
//! inside a component's Clone impl). The oracle is a reader/writer table per (archetype, column).
//!
//!   ax run --depth D --out <file> [--threads N]        ax replay '<json stack>' <popx> <popy>

#![allow(clippy::all)]
#![allow(unused_variables, unused_mut)]

use std::cell::{Cell, RefCell};
use std::collections::BTreeMap;
use std::panic::{catch_unwind, AssertUnwindSafe};
use std::sync::atomic::{AtomicBool, AtomicU64, AtomicUsize, Ordering};
use std::sync::Mutex;

use gecs::prelude::*;
use serde::{Deserialize, Serialize};

pub struct Ca(pub u32);
pub struct Cb(pub u32);
pub struct Cc(pub u32);

thread_local! {
    /// Continuation to run inside `Cb::clone` (clone as an OUTER access). Harness-only unsafe: a raw
    /// pointer to a closure that lives on the stack of the caller of `world.clone()`.
    static CLONE_HOOK: Cell<Option<*mut dyn FnMut()>> = Cell::new(None);
}

impl Clone for Ca {
    fn clone(&self) -> Self {
        Ca(self.0)
    }
}
impl Clone for Cc {
    fn clone(&self) -> Self {
        Cc(self.0)
    }
}
impl Clone for Cb {
    fn clone(&self) -> Self {
        if let Some(p) = CLONE_HOOK.with(|h| h.take()) {
            // run once, for the first Cb that is cloned
            unsafe { (*p)() };
        }
        Cb(self.0)
    }
}

/// zero-sized, never accessed: it only shifts the positions of Y's other columns
#[derive(Clone)]
pub struct Cz;

// The shared component Ca sits at a different position in each archetype (last of 2 in X, middle of 3 in Y,
// after a zero-sized column), so an access that is keyed on a column POSITION instead of the component shows.
ecs_world! {
    ecs_name!(BW);
    ecs_archetype!(X, Cb, Ca);
    ecs_archetype!(Y, Cz, Ca, Cc);
}

/// Parameter forms of the borrow macros: list of (logical column, mutable); logical column 0 = Ca, 1 = the
/// archetype's other component (Cb in X, Cc in Y), whatever their declared positions.
const FORMS: [&[(u8, bool)]; 12] = [
    &[(0, false)], &[(0, true)], &[(1, false)], &[(1, true)],
    &[(0, false), (1, false)], &[(0, false), (1, true)], &[(0, true), (1, false)], &[(0, true), (1, true)],
    &[(0, false), (0, false)], &[(0, false), (0, true)], &[(0, true), (0, false)], &[(0, true), (0, true)],
];
/// Forms usable without naming an archetype (only the shared column type Ca).
const FORMS_ALL: [usize; 6] = [0, 1, 8, 9, 10, 11];

#[derive(Clone, Copy, Debug, PartialEq, Eq, Serialize, Deserialize)]
pub enum Acc {
    /// borrow_slice / borrow_slice_mut guard
    Slice { arch: u8, col: u8, m: bool },
    /// Borrow::component / component_mut guard of entity `ent`
    Comp { arch: u8, ent: u8, col: u8, m: bool },
    /// ecs_find_borrow! on entity `ent` with parameter form `form`
    Find { arch: u8, ent: u8, form: u8 },
    /// ecs_iter_borrow! restricted to an archetype (Entity<A> parameter) ...
    Iter { arch: u8, form: u8 },
    /// ... or over every archetype that has Ca
    IterAll { form: u8 },
    /// world.clone(): as the last element a plain call, otherwise the rest runs inside Cb::clone
    CloneW,
    /// user panic (fault injection)
    Panic,
}

struct Env<'a> {
    w: &'a BW,
    ex: Vec<Entity<X>>,
    ey: Vec<Entity<Y>>,
    reached: Cell<usize>,
    completed: Cell<bool>,
    /// writes performed: (arch, entity index, col) -> new value
    writes: RefCell<Vec<(u8, usize, u8, u32)>>,
}

const USER_PANIC: &str = "ax-injected user panic";

fn go(env: &Env, accs: &[Acc], depth: usize) {
    let (acc, rest) = match accs.split_first() {
        None => {
            env.completed.set(true);
            return;
        }
        Some(x) => x,
    };
    // `entered` marks that this access was granted in full (all its guards acquired)
    let entered = || env.reached.set(depth + 1);
    let w = env.w;
    let nv = 1000 * (depth as u32 + 1);
    match *acc {
        Acc::Panic => panic!("{}", USER_PANIC),
        Acc::Slice { arch, col, m } => {
            macro_rules! sl {
                ($a:expr, $C:ty) => {{
                    if m {
                        let mut g = $a.borrow_slice_mut::<$C>();
                        entered();
                        if let Some(c) = g.get_mut(0) {
                            c.0 += nv;
                            env.writes.borrow_mut().push((arch, 0, col, c.0));
                        }
                        go(env, rest, depth + 1);
                        drop(g);
                    } else {
                        let g = $a.borrow_slice::<$C>();
                        entered();
                        go(env, rest, depth + 1);
                        drop(g);
                    }
                }};
            }
            match (arch, col) {
                (0, 0) => sl!(w.x, Ca),
                (0, _) => sl!(w.x, Cb),
                (_, 0) => sl!(w.y, Ca),
                (_, _) => sl!(w.y, Cc),
            }
        }
        Acc::Comp { arch, ent, col, m } => {
            macro_rules! cp {
                ($b:expr, $C:ty) => {{
                    let b = $b.expect("ax: entity must exist");
                    if m {
                        let mut g = b.component_mut::<$C>();
                        entered();
                        g.0 += nv;
                        env.writes.borrow_mut().push((arch, ent as usize, col, g.0));
                        go(env, rest, depth + 1);
                        drop(g);
                    } else {
                        let g = b.component::<$C>();
                        entered();
                        go(env, rest, depth + 1);
                        drop(g);
                    }
                }};
            }
            match (arch, col) {
                (0, 0) => cp!(w.borrow(env.ex[ent as usize]), Ca),
                (0, _) => cp!(w.borrow(env.ex[ent as usize]), Cb),
                (_, 0) => cp!(w.borrow(env.ey[ent as usize]), Ca),
                (_, _) => cp!(w.borrow(env.ey[ent as usize]), Cc),
            }
        }
        Acc::Find { arch, ent, form } => {
            let e = ent as usize;
            macro_rules! wr {
                ($p:ident, $col:expr) => {{
                    $p.0 += nv;
                    env.writes.borrow_mut().push((arch, e, $col, $p.0));
                }};
            }
            macro_rules! forms {
                ($ent:expr, $C1:ty) => {
                    match form {
                        0 => { ecs_find_borrow!(w, $ent, |a: &Ca| { entered(); go(env, rest, depth + 1); }); }
                        1 => { ecs_find_borrow!(w, $ent, |a: &mut Ca| { entered(); wr!(a, 0); go(env, rest, depth + 1); }); }
                        2 => { ecs_find_borrow!(w, $ent, |b: &$C1| { entered(); go(env, rest, depth + 1); }); }
                        3 => { ecs_find_borrow!(w, $ent, |b: &mut $C1| { entered(); wr!(b, 1); go(env, rest, depth + 1); }); }
                        4 => { ecs_find_borrow!(w, $ent, |a: &Ca, b: &$C1| { entered(); go(env, rest, depth + 1); }); }
                        5 => { ecs_find_borrow!(w, $ent, |a: &Ca, b: &mut $C1| { entered(); wr!(b, 1); go(env, rest, depth + 1); }); }
                        6 => { ecs_find_borrow!(w, $ent, |a: &mut Ca, b: &$C1| { entered(); wr!(a, 0); go(env, rest, depth + 1); }); }
                        7 => { ecs_find_borrow!(w, $ent, |a: &mut Ca, b: &mut $C1| { entered(); wr!(a, 0); wr!(b, 1); go(env, rest, depth + 1); }); }
                        8 => { ecs_find_borrow!(w, $ent, |a: &Ca, a2: &Ca| { entered(); go(env, rest, depth + 1); }); }
                        9 => { ecs_find_borrow!(w, $ent, |a: &Ca, a2: &mut Ca| { entered(); go(env, rest, depth + 1); }); }
                        10 => { ecs_find_borrow!(w, $ent, |a: &mut Ca, a2: &Ca| { entered(); go(env, rest, depth + 1); }); }
                        _ => { ecs_find_borrow!(w, $ent, |a: &mut Ca, a2: &mut Ca| { entered(); go(env, rest, depth + 1); }); }
                    }
                };
            }
            if arch == 0 {
                let ent = env.ex[e];
                forms!(ent, Cb)
            } else {
                let ent = env.ey[e];
                forms!(ent, Cc)
            }
        }
        Acc::Iter { arch, form } => {
            // which entity the closure is visiting is read from its handle parameter (iteration order is not specified)
            let which = |any: EntityAny| -> usize {
                if arch == 0 { env.ex.iter().position(|x| x.into_any() == any).unwrap() } else { env.ey.iter().position(|x| x.into_any() == any).unwrap() }
            };
            macro_rules! wr {
                ($p:ident, $col:expr, $e:ident) => {{
                    $p.0 += nv;
                    env.writes.borrow_mut().push((arch, which($e.into_any()), $col, $p.0));
                }};
            }
            macro_rules! forms {
                ($A:ty, $C1:ty) => {
                    match form {
                        0 => ecs_iter_borrow!(w, |a: &Ca, _e: &Entity<$A>| { entered(); go(env, rest, depth + 1); EcsStep::Break }),
                        1 => ecs_iter_borrow!(w, |a: &mut Ca, _e: &Entity<$A>| { entered(); wr!(a, 0, _e); go(env, rest, depth + 1); EcsStep::Break }),
                        2 => ecs_iter_borrow!(w, |b: &$C1, _e: &Entity<$A>| { entered(); go(env, rest, depth + 1); EcsStep::Break }),
                        3 => ecs_iter_borrow!(w, |b: &mut $C1, _e: &Entity<$A>| { entered(); wr!(b, 1, _e); go(env, rest, depth + 1); EcsStep::Break }),
                        4 => ecs_iter_borrow!(w, |a: &Ca, b: &$C1, _e: &Entity<$A>| { entered(); go(env, rest, depth + 1); EcsStep::Break }),
                        5 => ecs_iter_borrow!(w, |a: &Ca, b: &mut $C1, _e: &Entity<$A>| { entered(); wr!(b, 1, _e); go(env, rest, depth + 1); EcsStep::Break }),
                        6 => ecs_iter_borrow!(w, |a: &mut Ca, b: &$C1, _e: &Entity<$A>| { entered(); wr!(a, 0, _e); go(env, rest, depth + 1); EcsStep::Break }),
                        7 => ecs_iter_borrow!(w, |a: &mut Ca, b: &mut $C1, _e: &Entity<$A>| { entered(); wr!(a, 0, _e); wr!(b, 1, _e); go(env, rest, depth + 1); EcsStep::Break }),
                        8 => ecs_iter_borrow!(w, |a: &Ca, a2: &Ca, _e: &Entity<$A>| { entered(); go(env, rest, depth + 1); EcsStep::Break }),
                        9 => ecs_iter_borrow!(w, |a: &Ca, a2: &mut Ca, _e: &Entity<$A>| { entered(); go(env, rest, depth + 1); EcsStep::Break }),
                        10 => ecs_iter_borrow!(w, |a: &mut Ca, a2: &Ca, _e: &Entity<$A>| { entered(); go(env, rest, depth + 1); EcsStep::Break }),
                        _ => ecs_iter_borrow!(w, |a: &mut Ca, a2: &mut Ca, _e: &Entity<$A>| { entered(); go(env, rest, depth + 1); EcsStep::Break }),
                    }
                };
            }
            if arch == 0 {
                forms!(X, Cb)
            } else {
                forms!(Y, Cc)
            }
        }
        Acc::IterAll { form } => {
            // which entity (of which archetype) is visited is read from the handle parameter
            let which = |any: EntityAny| -> (u8, usize) {
                if let Some(i) = env.ex.iter().position(|x| x.into_any() == any) { (0, i) } else { (1, env.ey.iter().position(|x| x.into_any() == any).unwrap()) }
            };
            macro_rules! wr {
                ($p:ident, $e:ident) => {{
                    $p.0 += nv;
                    let (a, i) = which(*$e);
                    env.writes.borrow_mut().push((a, i, 0, $p.0));
                }};
            }
            match form {
                0 => ecs_iter_borrow!(w, |a: &Ca, e: &EntityAny| { entered(); go(env, rest, depth + 1); EcsStep::Break }),
                1 => ecs_iter_borrow!(w, |a: &mut Ca, e: &EntityAny| { entered(); wr!(a, e); go(env, rest, depth + 1); EcsStep::Break }),
                8 => ecs_iter_borrow!(w, |a: &Ca, a2: &Ca, e: &EntityAny| { entered(); go(env, rest, depth + 1); EcsStep::Break }),
                9 => ecs_iter_borrow!(w, |a: &Ca, a2: &mut Ca, e: &EntityAny| { entered(); go(env, rest, depth + 1); EcsStep::Break }),
                10 => ecs_iter_borrow!(w, |a: &mut Ca, a2: &Ca, e: &EntityAny| { entered(); go(env, rest, depth + 1); EcsStep::Break }),
                _ => ecs_iter_borrow!(w, |a: &mut Ca, a2: &mut Ca, e: &EntityAny| { entered(); go(env, rest, depth + 1); EcsStep::Break }),
            }
        }
        Acc::CloneW => {
            if rest.is_empty() {
                let c = w.clone();
                entered();
                drop(c);
                go(env, rest, depth + 1);
            } else {
                let mut k = || {
                    entered();
                    go(env, rest, depth + 1);
                };
                let kp: &mut dyn FnMut() = &mut k;
                // SAFETY (harness): the pointer is consumed (take) by the first Cb::clone during the call below,
                // or cleared right after it; `k` outlives both.
                let raw: *mut dyn FnMut() = unsafe { std::mem::transmute::<&mut dyn FnMut(), *mut (dyn FnMut() + 'static)>(kp) };
                CLONE_HOOK.with(|h| h.set(Some(raw)));
                struct Clear;
                impl Drop for Clear {
                    fn drop(&mut self) {
                        CLONE_HOOK.with(|h| h.set(None));
                    }
                }
                let _clear = Clear;
                let c = w.clone();
                drop(c);
            }
        }
    }
}

// ---------------------------------------------------------------------------------------------
// Oracle: reader/writer table.
// ---------------------------------------------------------------------------------------------

#[derive(Debug, PartialEq, Eq, Clone, Serialize)]
pub struct Outcome {
    pub panicked: bool,
    /// number of accesses granted in full before the run ended
    pub reached: usize,
    pub completed: bool,
}

fn predict(stack: &[Acc], popx: usize, popy: usize) -> Outcome {
    let mut held: Vec<(u8, u8, bool)> = Vec::new();
    let conflict = |held: &Vec<(u8, u8, bool)>, a: u8, c: u8, m: bool| held.iter().any(|(a2, c2, m2)| *a2 == a && *c2 == c && (m || *m2));
    for (i, acc) in stack.iter().enumerate() {
        let last = i + 1 == stack.len();
        let mut want: Vec<(u8, u8, bool)> = Vec::new();
        match *acc {
            Acc::Panic => return Outcome { panicked: true, reached: i, completed: false },
            Acc::Slice { arch, col, m } => want.push((arch, col, m)),
            Acc::Comp { arch, col, m, .. } => want.push((arch, col, m)),
            Acc::Find { arch, form, .. } => want.extend(FORMS[form as usize].iter().map(|(c, m)| (arch, *c, *m))),
            Acc::Iter { arch, form } => {
                if (if arch == 0 { popx } else { popy }) == 0 {
                    // nothing to visit: no borrow is taken, the closure (and the rest of the stack) never runs
                    return Outcome { panicked: false, reached: i, completed: false };
                }
                want.extend(FORMS[form as usize].iter().map(|(c, m)| (arch, *c, *m)));
            }
            Acc::IterAll { form } => {
                let arch = if popx > 0 { 0 } else if popy > 0 { 1 } else { return Outcome { panicked: false, reached: i, completed: false } };
                want.extend(FORMS[form as usize].iter().map(|(c, m)| (arch, *c, *m)));
            }
            Acc::CloneW => {
                if last {
                    // clone borrows every column of every archetype (shared), whatever the population
                    if held.iter().any(|(_, _, m)| *m) {
                        return Outcome { panicked: true, reached: i, completed: false };
                    }
                    continue;
                }
                // as an outer access it is only placed at the bottom of the stack (nothing held yet)
                assert!(i == 0);
                if popx == 0 {
                    return Outcome { panicked: false, reached: 0, completed: false };
                }
                want.push((0, 0, false));
                want.push((0, 1, false));
            }
        }
        for (a, c, m) in want {
            if conflict(&held, a, c, m) {
                return Outcome { panicked: true, reached: i, completed: false };
            }
            held.push((a, c, m));
        }
    }
    Outcome { panicked: false, reached: stack.len(), completed: true }
}

// ---------------------------------------------------------------------------------------------
// Enumeration
// ---------------------------------------------------------------------------------------------

fn alphabet(popx: usize, popy: usize, pos: usize, depth: usize) -> Vec<Acc> {
    let mut v = Vec::new();
    for arch in 0..2u8 {
        let pop = if arch == 0 { popx } else { popy };
        for col in 0..2u8 {
            for m in [false, true] {
                v.push(Acc::Slice { arch, col, m });
                for ent in 0..pop as u8 {
                    v.push(Acc::Comp { arch, ent, col, m });
                }
            }
        }
        for form in 0..12u8 {
            for ent in 0..pop as u8 {
                v.push(Acc::Find { arch, ent, form });
            }
            v.push(Acc::Iter { arch, form });
        }
    }
    for form in FORMS_ALL {
        v.push(Acc::IterAll { form: form as u8 });
    }
    // clone: as the innermost access anywhere; as an outer access only at the bottom
    if pos + 1 == depth || pos == 0 {
        v.push(Acc::CloneW);
    }
    if pos + 1 == depth && depth > 1 {
        v.push(Acc::Panic);
    }
    v
}

struct Stats {
    cells: AtomicU64,
    panicking: AtomicU64,
    completing: AtomicU64,
    skipped_by_empty: AtomicU64,
    user_panics: AtomicU64,
}

#[derive(Serialize, Clone)]
struct Vio {
    prop: String,
    oracle: String,
    msg: String,
    stack: Vec<Acc>,
    popx: usize,
    popy: usize,
}

fn build_world(popx: usize, popy: usize) -> (BW, Vec<Entity<X>>, Vec<Entity<Y>>) {
    let mut w = BW::new();
    let ex = (0..popx).map(|i| w.create::<X>((Cb(20 + i as u32), Ca(10 + i as u32)))).collect();
    let ey = (0..popy).map(|i| w.create::<Y>((Cz, Ca(30 + i as u32), Cc(40 + i as u32)))).collect();
    (w, ex, ey)
}

/// Runs one cell on a fresh world; returns an error description if the oracle disagrees.
fn run_cell(stack: &[Acc], popx: usize, popy: usize, stats: Option<&Stats>) -> Result<Outcome, (String, String)> {
    let (mut w, ex, ey) = build_world(popx, popy);
    let expected = predict(stack, popx, popy);
    let env = Env { w: &w, ex: ex.clone(), ey: ey.clone(), reached: Cell::new(0), completed: Cell::new(false), writes: RefCell::new(Vec::new()) };
    let r = catch_unwind(AssertUnwindSafe(|| go(&env, stack, 0)));
    CLONE_HOOK.with(|h| h.set(None));
    let msg = match &r {
        Ok(()) => None,
        Err(p) => Some(p.downcast_ref::<&str>().map(|s| s.to_string()).or_else(|| p.downcast_ref::<String>().cloned()).unwrap_or_default()),
    };
    let got = Outcome { panicked: r.is_err(), reached: env.reached.get(), completed: env.completed.get() };
    let writes = env.writes.borrow().clone();
    drop(env);
    if let Some(s) = stats {
        s.cells.fetch_add(1, Ordering::Relaxed);
        if got.panicked {
            s.panicking.fetch_add(1, Ordering::Relaxed);
        }
        if got.completed {
            s.completing.fetch_add(1, Ordering::Relaxed);
        }
        if !got.panicked && !got.completed {
            s.skipped_by_empty.fetch_add(1, Ordering::Relaxed);
        }
    }
    if got != expected {
        let oracle = if got.panicked && !expected.panicked {
            "refused-wrongly"
        } else if !got.panicked && expected.panicked {
            "aliasing-granted"
        } else {
            "granted-at-wrong-depth"
        };
        return Err((oracle.into(), format!("expected {:?}, observed {:?} (panic message: {:?})", expected, got, msg)));
    }
    if let (true, Some(m)) = (got.panicked, &msg) {
        let user = stack.iter().take(got.reached + 1).last() == Some(&Acc::Panic);
        if user != m.contains(USER_PANIC) {
            return Err(("wrong-panic".into(), format!("panic message '{}' does not fit the access that was expected to panic", m)));
        }
        if user {
            if let Some(s) = stats {
                s.user_panics.fetch_add(1, Ordering::Relaxed);
            }
        }
    }
    // no guard leaked, whether the cell completed or unwound: every column can be borrowed mutably now
    let leak = catch_unwind(AssertUnwindSafe(|| {
        let _ = w.x.borrow_slice_mut::<Ca>().len();
        let _ = w.x.borrow_slice_mut::<Cb>().len();
        let _ = w.y.borrow_slice_mut::<Ca>().len();
        let _ = w.y.borrow_slice_mut::<Cc>().len();
        let c = w.clone();
        drop(c);
    }));
    if leak.is_err() {
        return Err(("guard-leaked".into(), "after the cell a column can no longer be borrowed mutably / the world can no longer be cloned".into()));
    }
    // values: exactly the writes that were performed are visible, through the compile-time checked path
    let mut model: BTreeMap<(u8, usize, u8), u32> = BTreeMap::new();
    for i in 0..popx {
        model.insert((0, i, 0), 10 + i as u32);
        model.insert((0, i, 1), 20 + i as u32);
    }
    for i in 0..popy {
        model.insert((1, i, 0), 30 + i as u32);
        model.insert((1, i, 1), 40 + i as u32);
    }
    for (a, e, c, v) in writes {
        model.insert((a, e, c), v);
    }
    for (i, e) in ex.iter().enumerate() {
        let v = w.view(*e).unwrap();
        if v.component::<Ca>().0 != model[&(0, i, 0)] || v.component::<Cb>().0 != model[&(0, i, 1)] {
            return Err(("write-lost-or-misplaced".into(), format!("X entity {} holds ({}, {}), expected ({}, {})", i, v.component::<Ca>().0, v.component::<Cb>().0, model[&(0, i, 0)], model[&(0, i, 1)])));
        }
    }
    for (i, e) in ey.iter().enumerate() {
        let v = w.view(*e).unwrap();
        if v.component::<Ca>().0 != model[&(1, i, 0)] || v.component::<Cc>().0 != model[&(1, i, 1)] {
            return Err(("write-lost-or-misplaced".into(), format!("Y entity {} holds ({}, {}), expected ({}, {})", i, v.component::<Ca>().0, v.component::<Cc>().0, model[&(1, i, 0)], model[&(1, i, 1)])));
        }
    }
    Ok(got)
}

fn enumerate(depth: usize, popx: usize, popy: usize, first: Acc, stats: &Stats, found: &Mutex<BTreeMap<String, Vio>>, stop: &AtomicBool, samples: &Mutex<Vec<serde_json::Value>>) {
    fn rec(stack: &mut Vec<Acc>, depth: usize, popx: usize, popy: usize, stats: &Stats, found: &Mutex<BTreeMap<String, Vio>>, stop: &AtomicBool, samples: &Mutex<Vec<serde_json::Value>>) {
        if stop.load(Ordering::Relaxed) {
            return;
        }
        if stack.len() == depth {
            match run_cell(stack, popx, popy, Some(stats)) {
                Ok(o) => {
                    let mut s = samples.lock().unwrap();
                    if s.len() < 6 && (o.panicked || s.len() < 3) && stack.len() > 1 {
                        s.push(serde_json::json!({"stack": stack.clone(), "popx": popx, "popy": popy, "outcome": o}));
                    }
                }
                Err((oracle, msg)) => {
                    let mut f = found.lock().unwrap();
                    f.entry(oracle.clone()).or_insert(Vio { prop: "C11".into(), oracle, msg, stack: stack.clone(), popx, popy });
                    if f.len() > 10 {
                        stop.store(true, Ordering::Relaxed);
                    }
                }
            }
            return;
        }
        for a in alphabet(popx, popy, stack.len(), depth) {
            // an outer clone only makes sense at the bottom; an inner Panic/clone only at the top
            stack.push(a);
            rec(stack, depth, popx, popy, stats, found, stop, samples);
            stack.pop();
        }
    }
    let mut stack = vec![first];
    rec(&mut stack, depth, popx, popy, stats, found, stop, samples);
}

fn arg(args: &[String], name: &str) -> Option<String> {
    args.iter().position(|a| a == name).and_then(|i| args.get(i + 1).cloned())
}

fn main() {
    let args: Vec<String> = std::env::args().collect();
    std::panic::set_hook(Box::new(|_| {}));
    match args.get(1).map(|s| s.as_str()) {
        Some("run") => {
            let depth: usize = arg(&args, "--depth").map(|s| s.parse().unwrap()).unwrap_or(2);
            let threads: usize = arg(&args, "--threads").map(|s| s.parse().unwrap()).unwrap_or(16);
            let t0 = std::time::Instant::now();
            let stats = Stats { cells: AtomicU64::new(0), panicking: AtomicU64::new(0), completing: AtomicU64::new(0), skipped_by_empty: AtomicU64::new(0), user_panics: AtomicU64::new(0) };
            let found = Mutex::new(BTreeMap::new());
            let stop = AtomicBool::new(false);
            let samples = Mutex::new(Vec::new());
            let mut per_depth = Vec::new();
            for d in 1..=depth {
                let before = stats.cells.load(Ordering::Relaxed);
                // tasks: (population, first access)
                let mut tasks: Vec<(usize, usize, Acc)> = Vec::new();
                for popx in 0..=2 {
                    for popy in 0..=1 {
                        for a in alphabet(popx, popy, 0, d) {
                            tasks.push((popx, popy, a));
                        }
                    }
                }
                let next = AtomicUsize::new(0);
                std::thread::scope(|s| {
                    for _ in 0..threads {
                        s.spawn(|| loop {
                            let i = next.fetch_add(1, Ordering::Relaxed);
                            if i >= tasks.len() {
                                break;
                            }
                            let (px, py, a) = tasks[i];
                            enumerate(d, px, py, a, &stats, &found, &stop, &samples);
                        });
                    }
                });
                per_depth.push(serde_json::json!({"depth": d, "cells": stats.cells.load(Ordering::Relaxed) - before}));
            }
            let out = serde_json::json!({
                "max_depth": depth,
                "populations": "X in {0,1,2} x Y in {0,1}",
                "alphabet_size_full_population": alphabet(2, 1, 1, 3).len(),
                "cells": stats.cells.load(Ordering::Relaxed),
                "cells_panicking": stats.panicking.load(Ordering::Relaxed),
                "cells_completing": stats.completing.load(Ordering::Relaxed),
                "cells_cut_short_by_empty_archetype": stats.skipped_by_empty.load(Ordering::Relaxed),
                "cells_with_user_panic": stats.user_panics.load(Ordering::Relaxed),
                "per_depth": per_depth,
                "violations": found.lock().unwrap().values().cloned().collect::<Vec<_>>(),
                "samples": *samples.lock().unwrap(),
                "capped": stop.load(Ordering::Relaxed),
                "wall_s": t0.elapsed().as_secs_f64(),
            });
            match arg(&args, "--out") {
                Some(p) => std::fs::write(p, serde_json::to_string_pretty(&out).unwrap()).unwrap(),
                None => println!("{}", serde_json::to_string_pretty(&out).unwrap()),
            }
            std::process::exit(if found.lock().unwrap().is_empty() { 0 } else { 1 });
        }
        Some("replay") => {
            let stack: Vec<Acc> = serde_json::from_str(&args[2]).expect("stack json");
            let popx: usize = args[3].parse().unwrap();
            let popy: usize = args[4].parse().unwrap();
            match run_cell(&stack, popx, popy, None) {
                Ok(o) => {
                    println!("{}", serde_json::json!({"outcome": o, "violation": null}));
                    std::process::exit(0);
                }
                Err((oracle, msg)) => {
                    println!("{}", serde_json::json!({"violation": {"oracle": oracle, "msg": msg}}));
                    std::process::exit(1);
                }
            }
        }
        _ => {
            eprintln!("usage: ax run --depth D --out file | ax replay <stack json> <popx> <popy>");
            std::process::exit(2);
        }
    }
}
